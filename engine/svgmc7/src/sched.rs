//! A small stateless schedule explorer for the real svgbob code.
//!
//! Threads are real OS threads, but only the holder of the baton runs.  The
//! hook installed into `svgbob::verif` is called at every scheduling point
//! (named pipeline points, examination and publication of a lazy table, a
//! thread finding a table under construction).  At every point the explorer
//! decides who runs next: it replays a prefix of choices and then always takes
//! choice 0 (= keep running the current thread).  After an execution every
//! alternative at every point past the prefix is scheduled for exploration if
//! the number of preemptions stays within the bound (iterative context
//! bounding, Musuvathi & Qadeer).
use std::cell::Cell;
use std::sync::{Arc, Condvar, Mutex};
use svgbob::verif::{self, Event};

#[derive(Debug, Clone, Copy, PartialEq)]
enum Status {
    Runnable,
    /// waits for the lazy table with this id to be published
    Blocked(usize),
    Done,
}

#[derive(Debug, Clone, PartialEq)]
pub struct Point {
    pub thread: usize,
    pub event: String,
    pub enabled: Vec<usize>,
    pub choice: usize,
    /// the thread that was running could have continued
    pub running_enabled: bool,
}

struct State {
    current: usize,
    status: Vec<Status>,
    points: Vec<Point>,
    prefix: Vec<usize>,
    deadlock: bool,
    replay_error: Option<String>,
    aborted: bool,
}

pub struct Sched {
    st: Mutex<State>,
    cv: Condvar,
}

thread_local! {
    static TID: Cell<Option<usize>> = Cell::new(None);
}

static ACTIVE: Mutex<Option<Arc<Sched>>> = Mutex::new(None);

fn active() -> Option<Arc<Sched>> {
    ACTIVE.lock().ok().and_then(|a| a.clone())
}

fn hook(ev: Event) {
    let tid = match TID.with(|t| t.get()) {
        Some(t) => t,
        None => return,
    };
    if let Some(s) = active() {
        s.on_event(tid, ev);
    }
}

impl Sched {
    fn enabled(st: &State, running: Option<usize>) -> Vec<usize> {
        let ok = |t: usize| match st.status[t] {
            Status::Runnable => true,
            Status::Blocked(id) => verif::lazy_is_done(id),
            Status::Done => false,
        };
        let mut v = vec![];
        if let Some(r) = running {
            if ok(r) {
                v.push(r);
            }
        }
        for t in 0..st.status.len() {
            if Some(t) != running && ok(t) {
                v.push(t);
            }
        }
        v
    }

    /// decide who runs next at a point reached by `tid`; returns the chosen thread
    fn choose(st: &mut State, tid: usize, running_can_continue: bool, event: String) -> Option<usize> {
        let en = Self::enabled(st, if running_can_continue { Some(tid) } else { None });
        if en.is_empty() {
            if st.status.iter().any(|s| *s != Status::Done) {
                st.deadlock = true;
            }
            return None;
        }
        let i = st.points.len();
        let choice = if i < st.prefix.len() { st.prefix[i] } else { 0 };
        if choice >= en.len() {
            st.replay_error = Some(format!(
                "replay diverged at point {}: choice {} but only {} threads enabled",
                i,
                choice,
                en.len()
            ));
            st.aborted = true;
            return None;
        }
        let chosen = en[choice];
        st.points.push(Point {
            thread: tid,
            event,
            enabled: en,
            choice,
            running_enabled: running_can_continue,
        });
        Some(chosen)
    }

    fn on_event(&self, tid: usize, ev: Event) {
        let mut st = self.st.lock().unwrap();
        if st.aborted || st.deadlock {
            return;
        }
        debug_assert_eq!(st.current, tid);
        let (can_continue, name) = match ev {
            Event::Point(n) => (true, n.to_string()),
            Event::LazyCheck(_) => (true, "lazy:check".to_string()),
            Event::LazyPublish(_) => (true, "lazy:publish".to_string()),
            Event::LazyBlocked(id) => {
                st.status[tid] = Status::Blocked(id);
                (false, "lazy:blocked".to_string())
            }
        };
        // a single runnable thread has nothing to choose: do not record a point
        let others = (0..st.status.len()).any(|t| t != tid && st.status[t] != Status::Done);
        if !others && can_continue {
            return;
        }
        match Self::choose(&mut st, tid, can_continue, name) {
            Some(next) => {
                if next != tid {
                    st.current = next;
                    self.cv.notify_all();
                    while st.current != tid && !st.aborted && !st.deadlock {
                        st = self.cv.wait(st).unwrap();
                    }
                }
                if let Status::Blocked(_) = st.status[tid] {
                    // woken because the table is published (or the run is being torn down)
                    st.status[tid] = Status::Runnable;
                }
            }
            None => {
                // deadlock or replay error: release everybody; blocked threads spin out through yield
                self.cv.notify_all();
            }
        }
    }

    fn finish(&self, tid: usize) {
        let mut st = self.st.lock().unwrap();
        st.status[tid] = Status::Done;
        if st.aborted || st.deadlock {
            self.cv.notify_all();
            return;
        }
        if st.status.iter().all(|s| *s == Status::Done) {
            self.cv.notify_all();
            return;
        }
        match Self::choose(&mut st, tid, false, "thread:end".to_string()) {
            Some(next) => {
                st.current = next;
                self.cv.notify_all();
            }
            None => self.cv.notify_all(),
        }
    }

    fn wait_turn(&self, tid: usize) {
        let mut st = self.st.lock().unwrap();
        while st.current != tid && !st.aborted && !st.deadlock {
            st = self.cv.wait(st).unwrap();
        }
    }
}

pub struct Execution {
    pub points: Vec<Point>,
    /// per thread: the outputs of its conversions (Err = panic message)
    pub outputs: Vec<Vec<Result<String, String>>>,
    pub deadlock: bool,
    pub replay_error: Option<String>,
}

pub type Body = Arc<dyn Fn() -> Vec<Result<String, String>> + Send + Sync>;

/// run one execution of the thread bodies under the schedule given by `prefix`
pub fn run(bodies: &[Body], prefix: &[usize]) -> Execution {
    // every execution starts from the uninitialised process state
    unsafe { verif::reset_all() };
    let sched = Arc::new(Sched {
        st: Mutex::new(State {
            current: 0,
            status: vec![Status::Runnable; bodies.len()],
            points: vec![],
            prefix: prefix.to_vec(),
            deadlock: false,
            replay_error: None,
            aborted: false,
        }),
        cv: Condvar::new(),
    });
    *ACTIVE.lock().unwrap() = Some(sched.clone());
    verif::set_hook(Some(hook));
    let mut handles = vec![];
    for (tid, body) in bodies.iter().enumerate() {
        let s = sched.clone();
        let b = body.clone();
        handles.push(
            std::thread::Builder::new()
                .stack_size(16 << 20)
                .spawn(move || {
                    TID.with(|t| t.set(Some(tid)));
                    s.wait_turn(tid);
                    let r = std::panic::catch_unwind(std::panic::AssertUnwindSafe(|| b()));
                    let out = match r {
                        Ok(v) => v,
                        Err(_) => vec![Err(format!("thread body panicked: {}", crate::conv::last_panic()))],
                    };
                    TID.with(|t| t.set(None));
                    s.finish(tid);
                    out
                })
                .expect("spawn"),
        );
    }
    let mut outputs = vec![];
    for h in handles {
        outputs.push(h.join().unwrap_or_else(|_| vec![Err("thread died".into())]));
    }
    verif::set_hook(None);
    *ACTIVE.lock().unwrap() = None;
    let st = sched.st.lock().unwrap();
    Execution {
        points: st.points.clone(),
        outputs,
        deadlock: st.deadlock,
        replay_error: st.replay_error.clone(),
    }
}

/// preemptions in the choices of an execution up to (excluding) point i
fn preemptions_before(points: &[Point], i: usize) -> usize {
    points[..i].iter().filter(|p| p.running_enabled && p.choice != 0).count()
}

pub struct Explored {
    pub executions: u64,
    pub max_points: usize,
    pub capped: bool,
}

/// explore all schedules below `root_prefix` with at most `bound` preemptions;
/// `visit` is called for every execution and returns false to stop
pub fn explore(bodies: &[Body], root_prefix: Vec<usize>, bound: usize, cap: u64, visit: &mut dyn FnMut(&[usize], &Execution) -> bool) -> Explored {
    let mut stack: Vec<Vec<usize>> = vec![root_prefix];
    let mut ex = Explored { executions: 0, max_points: 0, capped: false };
    while let Some(prefix) = stack.pop() {
        if ex.executions >= cap {
            ex.capped = true;
            break;
        }
        let x = run(bodies, &prefix);
        ex.executions += 1;
        ex.max_points = ex.max_points.max(x.points.len());
        let choices: Vec<usize> = x.points.iter().map(|p| p.choice).collect();
        if !visit(&choices, &x) {
            break;
        }
        if x.replay_error.is_some() || x.deadlock {
            continue;
        }
        for i in prefix.len()..x.points.len() {
            let p = &x.points[i];
            let mut cost = preemptions_before(&x.points, i);
            if p.running_enabled {
                cost += 1;
            }
            if cost > bound {
                continue;
            }
            for alt in 1..p.enabled.len() {
                let mut np = choices[..i].to_vec();
                np.push(alt);
                stack.push(np);
            }
        }
    }
    ex
}

/// the prefixes of the children of the default execution (used to split the tree over workers)
pub fn root_children(bodies: &[Body], bound: usize) -> (Execution, Vec<Vec<usize>>) {
    let x = run(bodies, &[]);
    let choices: Vec<usize> = x.points.iter().map(|p| p.choice).collect();
    let mut kids = vec![];
    for i in 0..x.points.len() {
        let p = &x.points[i];
        let cost = if p.running_enabled { 1 } else { 0 };
        if cost > bound {
            continue;
        }
        for alt in 1..p.enabled.len() {
            let mut np = choices[..i].to_vec();
            np.push(alt);
            kids.push(np);
        }
    }
    (x, kids)
}
