#![allow(dead_code)]
//! The C07 engine: the shared explorer code compiled against svgbob with the
//! `verif` feature (controllable lazy tables, scheduling points, order seam).
#[path = "../../svgmc/src/conv.rs"]
mod conv;
#[path = "../../svgmc/src/enumr.rs"]
mod enumr;
#[path = "../../svgmc/src/refmodel.rs"]
mod refmodel;
#[path = "../../svgmc/src/runner.rs"]
mod runner;
#[path = "../../svgmc/src/shapes.rs"]
mod shapes;
#[path = "../../svgmc/src/svg.rs"]
mod svg;
#[path = "../../svgmc/src/xmlmini.rs"]
mod xmlmini;

mod c07;
mod sched;

use runner::Tier;

fn main() {
    let args: Vec<String> = std::env::args().collect();
    let seed: u64 = std::env::var("VERIF_SEED").ok().and_then(|s| s.parse().ok()).unwrap_or(0);
    if args.len() < 2 {
        eprintln!("usage: svgmc7 run C07 <quick|thorough> | replay <file>");
        std::process::exit(2);
    }
    match args[1].as_str() {
        "run" => {
            let tier = Tier::parse(args.get(3).map(|s| s.as_str()).unwrap_or("quick")).unwrap_or(Tier::Quick);
            std::process::exit(runner::run(&c07::C07, tier, seed));
        }
        "worker" => {
            let tier = Tier::parse(&args[3]).expect("tier");
            let seed: u64 = args[4].parse().expect("seed");
            let k: u64 = args[5].parse().expect("k");
            let n: u64 = args[6].parse().expect("n");
            let fs: usize = args[7].parse().expect("from scope");
            let fi: u64 = args[8].parse().expect("from idx");
            std::process::exit(runner::worker(&c07::C07, tier, seed, k, n, fs, fi));
        }
        "replay" => {
            let txt = std::fs::read_to_string(&args[2]).unwrap_or_default();
            let v: serde_json::Value = serde_json::from_str(&txt).unwrap_or(serde_json::json!({}));
            std::process::exit(runner::replay(&c07::C07, &v, &args[2]));
        }
        _ => {
            eprintln!("unknown command");
            std::process::exit(2)
        }
    }
}
