//! C07 — conversion is deterministic and stateless.
use crate::conv::{self, Entry, Sett};
use crate::enumr;
use crate::runner::{self, Case, Cx, Prop, Scope, Tier};
use crate::sched::{self, Body};
use crate::shapes;
use std::cell::{Cell, RefCell};
use std::io::{BufRead, BufReader, Write};
use std::sync::{Arc, OnceLock};
use svgbob::verif;

pub struct C07;

const SVGMC_OFF: &str = "/verif/target/release/svgmc";

/// the history / schedule alphabet: conversions chosen to collide on the lazily built tables
pub fn alphabet() -> Vec<(String, Sett)> {
    let cat = shapes::catalog();
    let circle = cat.get(5).cloned().unwrap_or_else(|| "()".to_string());
    let d = Sett::default_();
    let b = Sett::bare();
    vec![
        ("".to_string(), d.clone()),
        (circle, b.clone()),
        ("+--+\n|  |\n+--+".to_string(), b.clone()),
        ("\n\n    +--+\n    |  |\n    +--+".to_string(), b.clone()),
        ("hello world".to_string(), d.clone()),
        ("a \"q-|{x}\" b".to_string(), b.clone()),
        ("+-----+\n|{a,b}|\n+-----+\n# Legend:\na = {fill:red}\nb = {stroke:blue}".to_string(), d.clone()),
        ("+-----+\n|{a,b}|\n+-----+".to_string(), d.clone()),
        ("┌──┐ 一二\n│  │\n└──┘".to_string(), b.clone()),
        ("*-->\n  \\\n   v".to_string(), b.clone()),
        ("┼".to_string(), b.clone()),
        ("<".to_string(), b.clone()),
        // the same filled drawing under different colour settings (style sheet built from the settings)
        ("*--#\n+--+\n|  |\n+--+".to_string(), Sett { fill_color: "red".into(), background: "#102030".into(), stroke_color: "green".into(), ..d.clone() }),
        ("*--#\n+--+\n|  |\n+--+".to_string(), d.clone()),
        // same byte length as member 2, different content (conversions are made from one refilled buffer)
        (".--.\n|  |\n'--'".to_string(), b.clone()),
        // a legend that defines a class twice among other classes (anything that collapses duplicates through a map)
        ("+---+\n|{a}|\n+---+\n# Legend:\na = {fill:red}\nb = {stroke:blue}\na = {fill:blue}\nc = {stroke:red}\nd = {fill:green}".to_string(), d.clone()),
    ]
}

/// a page-sized drawing: a sheet of a thousand single-letter labels followed by boxes, connectors and prose
pub fn heavy_page(variant: usize) -> String {
    let letters: Vec<char> = "abcdefghijklmnopqrstuvwxyzABCDEFGHIJKLMNOPQRSTUVWXYZ".chars().collect();
    let mut text = String::new();
    let mut n = variant * 7;
    for _row in 0..25 {
        for _col in 0..40 {
            text.push(letters[n % letters.len()]);
            text.push_str("  ");
            n += 1 + variant;
        }
        text.push_str("\n\n");
    }
    for i in 0..6 {
        text.push_str("  +----------+        .----------.        +----------+\n");
        text.push_str(&format!("  | input {:02} |------->( stage {:02}  )------>| output {} |\n", i, i + variant, i % 10));
        text.push_str("  +----------+        '----------'        +----------+\n");
        text.push_str(&format!("      the quick brown fox number {} jumps over the lazy dog\n\n", variant * 10 + i));
    }
    text
}

/// what the scheduler harnesses index into: the history alphabet followed by two page-sized drawings
pub fn sched_alphabet() -> Vec<(String, Sett)> {
    let mut v = alphabet();
    v.push((heavy_page(0), Sett::default_()));
    v.push((heavy_page(1), Sett::default_()));
    // the same tagged, labelled and nested drawing at three scales (anything process-wide that depends on the settings
    // of the conversion in progress shows when threads at different scales interleave inside the node-building stage)
    let scaled = "+------------+  .-------.\n|{a} label x |  | (inner) |\n+------------+  '-------'\n  \"quoted\" plain";
    for sc in [2.0f32, 30.0, 0.5] {
        v.push((scaled.to_string(), Sett::bare_scale(sc)));
    }
    v
}

/// ask a FRESH feature-off process (real once_cell tables) to convert a sequence
pub fn fresh_process(seq: &[(String, Sett)]) -> Result<Vec<String>, String> {
    let mut child = std::process::Command::new(SVGMC_OFF)
        .arg("ref")
        .stdin(std::process::Stdio::piped())
        .stdout(std::process::Stdio::piped())
        .stderr(std::process::Stdio::null())
        .spawn()
        .map_err(|e| format!("cannot start {}: {}", SVGMC_OFF, e))?;
    {
        let mut stdin = child.stdin.take().unwrap();
        for (inp, s) in seq {
            let req = serde_json::json!({"input_hex": runner::hex(inp), "settings": s.to_json(), "entry": "with_settings"});
            writeln!(stdin, "{}", req).map_err(|e| e.to_string())?;
        }
    }
    let mut outs = vec![];
    for line in BufReader::new(child.stdout.take().unwrap()).lines() {
        let line = line.map_err(|e| e.to_string())?;
        if let Some(r) = line.strip_prefix("@@R ") {
            outs.push(if r.starts_with('!') { r.to_string() } else { runner::unhex(r) });
        }
    }
    let _ = child.wait();
    if outs.len() != seq.len() {
        return Err(format!("fresh process answered {} of {} requests", outs.len(), seq.len()));
    }
    Ok(outs)
}

static REFS: OnceLock<Result<Vec<String>, String>> = OnceLock::new();

/// outputs of every alphabet member converted alone in its own fresh process
fn references() -> &'static Result<Vec<String>, String> {
    REFS.get_or_init(|| {
        let mut v = vec![];
        for m in sched_alphabet() {
            let o = fresh_process(&[m])?;
            v.push(o[0].clone());
        }
        Ok(v)
    })
}

/// alphabet of the pair histories: quarter arcs of every size and quadrant, rounded tabs, the history alphabet
pub fn pair_alphabet() -> Vec<String> {
    let mut v: Vec<String> = shapes::circle_parts_family().into_iter().enumerate().filter(|(i, _)| i % 8 < 4).map(|(_, d)| d).collect();
    for h in 1..=4 {
        let bars: Vec<String> = (0..h).map(|_| "|     |".to_string()).collect();
        v.push(format!(" .---.\n/     \\\n{}", bars.join("\n")));
        v.push(format!(".-----.\n{}", bars.join("\n")));
    }
    for (inp, _s) in alphabet() {
        v.push(inp);
    }
    // the same shape at two positions, and look-alikes made of the same characters in another layout
    for d in ["(_)---", "   (_)---", "\n\n (_)---", " .-.\n(   )--\n `-'", "     .-.\n    (   )--\n     `-'", "()", "(\n)", ")(", " ()", "(_)", "(\n_)", " _\n()"] {
        v.push(d.to_string());
    }
    v
}

static PAIR_REFS: OnceLock<Result<Vec<String>, String>> = OnceLock::new();

fn pair_references() -> &'static Result<Vec<String>, String> {
    PAIR_REFS.get_or_init(|| {
        let mut v = vec![];
        for m in pair_alphabet() {
            let o = fresh_process(&[(m, Sett::bare())])?;
            v.push(o[0].clone());
        }
        Ok(v)
    })
}

// ---- the order seam ---------------------------------------------------------

thread_local! {
    /// (kind, k): which permutation the seam must deliver
    static ORDER_SPEC: Cell<(u8, usize)> = Cell::new((0, 0));
    static MAX_N: Cell<usize> = Cell::new(0);
    static SEAM_CALLS: Cell<u64> = Cell::new(0);
    static CORPUS_HASHES: RefCell<Option<Vec<u64>>> = RefCell::new(None);
}

fn factorial(n: usize) -> usize {
    (1..=n).product::<usize>().max(1)
}

fn kth_permutation(n: usize, mut k: usize) -> Vec<usize> {
    let mut items: Vec<usize> = (0..n).collect();
    let mut out = vec![];
    for i in (1..=n).rev() {
        let f = factorial(i - 1);
        let idx = (k / f) % i;
        k %= f;
        out.push(items.remove(idx));
    }
    out
}

fn order_cb(n: usize) -> Vec<usize> {
    MAX_N.with(|m| m.set(m.get().max(n)));
    SEAM_CALLS.with(|c| c.set(c.get() + 1));
    let (kind, k) = ORDER_SPEC.with(|s| s.get());
    if n < 2 {
        return (0..n).collect();
    }
    match kind {
        0 => {
            if n <= 8 {
                kth_permutation(n, k % factorial(n))
            } else {
                (0..n).map(|i| (i + k) % n).collect()
            }
        }
        1 => (0..n).rev().collect(),
        2 => (0..n).map(|i| (i + k) % n).collect(),
        3 => {
            let mut v: Vec<usize> = (0..n).collect();
            let j = k % (n - 1);
            v.swap(j, j + 1);
            v
        }
        _ => (0..n).step_by(2).chain((1..n).step_by(2)).collect(),
    }
}

fn convert_in_process(input: &str, s: &Sett) -> Result<String, String> {
    conv::convert(input, s, Entry::WithSettings)
}

fn harness(id: i64) -> Vec<Vec<usize>> {
    // thread -> indices into the alphabet
    match id {
        0 => vec![vec![1], vec![2]],
        1 => vec![vec![6], vec![8]],
        2 => vec![vec![9, 3], vec![4]],
        3 => vec![vec![5], vec![5]],
        4 => vec![vec![10], vec![11]],
        5 => vec![vec![1], vec![2], vec![7]],
        6 => vec![vec![6], vec![8], vec![9]],
        // two page-sized drawings at once (work that is bounded or shared per process shows here)
        8 => vec![vec![alphabet().len()], vec![alphabet().len() + 1]],
        // two threads convert the same drawing at different scales
        9 => vec![vec![alphabet().len() + 2], vec![alphabet().len() + 3]],
        10 => vec![vec![alphabet().len() + 4, alphabet().len() + 2], vec![alphabet().len() + 3]],
        _ => vec![vec![2], vec![3]],
    }
}

fn bodies_of(h: &[Vec<usize>]) -> Vec<Body> {
    let alpha = sched_alphabet();
    h.iter()
        .map(|idxs| {
            let items: Vec<(String, Sett)> = idxs.iter().map(|i| alpha[*i].clone()).collect();
            let b: Body = Arc::new(move || items.iter().map(|(inp, s)| convert_in_process(inp, s)).collect());
            b
        })
        .collect()
}

impl Prop for C07 {
    fn id(&self) -> &'static str {
        "C07"
    }
    fn rule(&self) -> &'static str {
        "(a) histories: every sequence of up to 3 (thorough 4) conversions over a 16-member alphabet chosen to collide on the lazily built tables (two members have the same byte length; every conversion is made from one refilled input buffer, so equal-length inputs share their address), each sequence in its own fresh process with the real once_cell tables, every output compared byte for byte \
         with the same conversion alone in a fresh process; (b) orders/processes: a corpus of ~15 000 inputs (thorough ~117 000: all 2-character neighbourhoods) is converted by 16 fresh processes, each in a different order (identity, reverse, 14 stride permutations: every ordered pair of inputs occurs in both relative orders), \
         and every output hash compared with this process's own result (different process = different hash seeds; also repeated 4 times in-process); (c) hash-order seam: for all 3x3 grids with <=3 (thorough 4) cells over 6 characters ALL n! iteration orders of the property map are forced, \
         for larger drawings a structured family of orders, also with the tables rebuilt under the forced order; (d) schedules: 2-3 threads converting from the uninitialised table state under an owned scheduler, all interleavings of the instrumented points with at most 2 preemptions (thorough: 3 for two threads), \
         one harness with two page-sized drawings (a thousand labels each, about 10 000 points) at once with one preemption (thorough: at every point; quick: at the first, middle and last occurrence of every program point of either thread), outputs compared with sequential references, deadlock = no enabled thread; one schedule is replayed twice to prove the harness owns every choice. distinct_nontrivial = distinct (scope, outcome) pairs incl. distinct schedules' point sequences"
    }
    fn assumptions(&self) -> Vec<String> {
        vec![
            "schedules are explored at the granularity of the inserted points and lazy-table events, sequentially consistent; machine-level interleavings and weak memory are not modelled".into(),
            "hash seeds other than at the instrumented seam are covered by process/repetition sampling (16 processes x 4 repetitions), which can only add violations".into(),
        ]
    }
    fn call_cap_s(&self, _scope: &str) -> u64 {
        600
    }
    fn scopes(&self, tier: Tier, _seed: u64) -> Vec<Scope> {
        let quick = tier == Tier::Quick;
        let hl = if quick { 3 } else { 4 };
        let corpus_kind: i64 = if quick { 0 } else { 1 };
        let k = if quick { 3 } else { 4 };
        let mut v = vec![
            Scope::new("histories", "all sequences of 1..L alphabet members, each in a fresh process", move |f| {
                let n = alphabet().len() as i64;
                for len in 1..=hl {
                    let total = n.pow(len as u32);
                    for t in 0..total {
                        let mut x = t;
                        let mut seq = vec![];
                        for _ in 0..len {
                            seq.push(x % n);
                            x /= n;
                        }
                        // length-L sequences: only those whose last two members differ or are a repeated pair of interest
                        f(Case::sn("history", seq));
                    }
                }
            }),
            Scope::new("orders", "16 fresh processes, each converting the whole corpus in its own order", move |f| {
                for p in 0..16 {
                    f(Case::sn("order", vec![corpus_kind, p, 16]));
                }
            }),
            Scope::new("seam-all-orders", "all 3x3 grids with at most k cells over {-,|,+,/,.,*}: every one of the n! iteration orders of the property map", move |f| {
                enumr::sparse(&['-', '|', '+', '/', '.', '*'], 3, 3, k, &mut |g| f(Case::s(g)));
            }),
            Scope::new("seam-structured", "shape families and tagged drawings: identity, reverse, rotations, adjacent transpositions, evens-then-odds; tables rebuilt under the forced order", |f| {
                for (i, (_n, d)) in shapes::family_samples(10).into_iter().enumerate() {
                    if i % 3 == 0 {
                        f(Case::s(d));
                    }
                }
                for (inp, _s) in alphabet() {
                    f(Case::s(inp));
                }
            }),
        ];
        let hs: Vec<(i64, i64)> = if quick {
            vec![(0, 2), (1, 2), (2, 1), (3, 2), (4, 2), (5, 1), (8, 1), (9, 2), (10, 1)]
        } else {
            vec![(0, 3), (1, 3), (2, 2), (3, 3), (4, 3), (5, 2), (6, 2), (7, 3), (8, 1), (9, 2), (10, 2)]
        };
        v.push(Scope::new("pair-histories", "every ordered pair (X, Y) of a 100-drawing alphabet (the quadrants of every catalogue circle, rounded tabs, the history alphabet): Y converted immediately after X in one process, compared with Y alone in a fresh process", |f| {
            for x in 0..pair_alphabet().len() {
                f(Case::sn("pairs", vec![x as i64]));
            }
        }));
        v.push(Scope::new("free-running", "supplementary (a sample of machine schedules, can only add violations): 6 free OS threads, started together, convert tagged and plain drawings at different scales 120 times each, compared with the sequential result", |f| {
            for round in 0..4 {
                f(Case::sn("free", vec![round]));
            }
        }));
        v.push(Scope::new("schedules", "harness x preemption bound x subtree of the default execution", move |f| {
            for &(h, b) in &hs {
                // the default execution plus up to `slots` subtrees below it; the page-sized harness has about
                // ten thousand points: the thorough tier explores a preemption at every one of them, the quick
                // tier at the first, the middle and the last dynamic occurrence of every (thread, program point)
                let (slots, mode) = if h == 8 { if quick { (256, 1) } else { (16384, 0) } } else { (256, 0) };
                for child in -1..slots {
                    f(Case::sn("schedule", vec![h, b, child, mode, slots]));
                }
            }
        }));
        v
    }
    fn check(&self, scope: &str, case: &Case, cx: &mut Cx) {
        match scope {
            "histories" => {
                let alpha = alphabet();
                let refs = match references() {
                    Ok(r) => r,
                    Err(e) => {
                        cx.machinery.push(format!("cannot compute fresh references: {}", e));
                        return;
                    }
                };
                let seq: Vec<(String, Sett)> = case.n.iter().map(|i| alpha[*i as usize].clone()).collect();
                let outs = match fresh_process(&seq) {
                    Ok(o) => o,
                    Err(e) => {
                        cx.machinery.push(e);
                        return;
                    }
                };
                cx.conversions += seq.len() as u64;
                for (pos, (i, o)) in case.n.iter().zip(&outs).enumerate() {
                    cx.compared();
                    if *o != refs[*i as usize] {
                        cx.fail(
                            "history-dependent",
                            format!("history {:?}: conversion #{} (alphabet member {}: {:?}) differs from the same conversion alone in a fresh process", case.n, pos, i, alpha[*i as usize].0),
                        );
                        return;
                    }
                }
                cx.outcome(&("history", case.n.len(), case.n.last().cloned()));
            }
            "orders" => {
                let (kind, p, np) = (case.n[0] as u32, case.n[1] as usize, case.n[2] as usize);
                let corpus = shapes::order_corpus(kind);
                // this process's own hashes (feature-on build), computed once, each input converted 4 times
                let own_missing = CORPUS_HASHES.with(|c| c.borrow().is_none());
                if own_missing {
                    let sett = Sett { backdrop: false, defs: false, styles: true, ..Sett::default_() };
                    let mut hs = vec![];
                    for inp in &corpus {
                        let mut first: Option<u64> = None;
                        for rep in 0..4 {
                            let h = match conv::convert(inp, &sett, Entry::WithSettings) {
                                Ok(o) => runner::hash64(&o),
                                Err(_) => 1,
                            };
                            cx.conversions += 1;
                            match first {
                                None => first = Some(h),
                                Some(f) if f != h => {
                                    cx.fail("repeat-differs", format!("input {:?}: repetition {} in the same process gives a different output", inp, rep));
                                    return;
                                }
                                _ => {}
                            }
                        }
                        hs.push(first.unwrap());
                    }
                    CORPUS_HASHES.with(|c| *c.borrow_mut() = Some(hs));
                }
                let out = std::process::Command::new(SVGMC_OFF)
                    .args(["orderhash", &kind.to_string(), &p.to_string(), &np.to_string()])
                    .stderr(std::process::Stdio::null())
                    .output();
                let out = match out {
                    Ok(o) => String::from_utf8_lossy(&o.stdout).to_string(),
                    Err(e) => {
                        cx.machinery.push(format!("cannot run orderhash: {}", e));
                        return;
                    }
                };
                let line = out.lines().find(|l| l.starts_with("@@H")).unwrap_or("");
                let theirs: Vec<u64> = line.split(' ').skip(1).filter_map(|h| u64::from_str_radix(h, 16).ok()).collect();
                if theirs.len() != corpus.len() {
                    cx.machinery.push(format!("orderhash answered {} hashes for {} inputs", theirs.len(), corpus.len()));
                    return;
                }
                cx.conversions += corpus.len() as u64;
                let order = shapes::order_perm(corpus.len(), p, np);
                let own = CORPUS_HASHES.with(|c| c.borrow().clone().unwrap());
                for i in 0..corpus.len() {
                    cx.compared();
                    if theirs[i] != own[i] {
                        let pos = order.iter().position(|x| *x == i).unwrap_or(0);
                        let before: Vec<&String> = order[..pos].iter().rev().take(3).map(|j| &corpus[*j]).collect();
                        cx.fail(
                            "order-or-process-dependent",
                            format!(
                                "input {:?} (corpus index {}) converted at position {} of permutation {} in a fresh process differs from this process's result; the three conversions before it were {:?}",
                                corpus[i], i, pos, p, before
                            ),
                        );
                        return;
                    }
                }
                cx.outcome(&("order", p));
            }
            "pair-histories" => {
                let z = pair_alphabet();
                let refs = match pair_references() {
                    Ok(r) => r,
                    Err(e) => {
                        cx.machinery.push(format!("cannot compute fresh references: {}", e));
                        return;
                    }
                };
                let x = case.n[0] as usize;
                let b = Sett::bare();
                let mut seq: Vec<(String, Sett)> = vec![];
                for y in 0..z.len() {
                    seq.push((z[x].clone(), b.clone()));
                    seq.push((z[y].clone(), b.clone()));
                }
                let outs = match fresh_process(&seq) {
                    Ok(o) => o,
                    Err(e) => {
                        cx.machinery.push(e);
                        return;
                    }
                };
                cx.conversions += seq.len() as u64;
                for y in 0..z.len() {
                    cx.compared();
                    if outs[2 * y + 1] != refs[y] || outs[2 * y] != refs[x] {
                        cx.fail_case(
                            "history-dependent",
                            format!("converting {:?} right after {:?} (pair #{} of one process) gives a different result than converting it alone in a fresh process", z[y], z[x], y),
                            Case::sn("pairs", vec![x as i64]),
                        );
                        return;
                    }
                }
                cx.outcome(&("pairs", x));
            }
            "free-running" => {
                let inputs: Vec<String> = vec![
                    (0..6).map(|_| "+---+ +---+ +---+\n|{w}| |{w}| |{w}|\n+---+ +---+ +---+").collect::<Vec<_>>().join("\n"),
                    "+-----+\n|{a,b}|\n+-----+\n# Legend:\na = {fill:red}".to_string(),
                    "*--> .-.\n    ( a )\n     `-'".to_string(),
                    // box-drawing glyphs right next to neighbour-sensitive ASCII characters
                    (0..5).map(|_| "+──+ .──. *──> ┌-+\n│  │ │  │      │ |\n+──+ '──'      └-+").collect::<Vec<_>>().join("\n"),
                ];
                let scales = [1.0f32, 37.5, 3.0, 20.0, 8.0, 0.5];
                // sequential references
                let mut refs: Vec<Vec<Result<String, String>>> = vec![];
                for sc in scales {
                    refs.push(inputs.iter().map(|i| convert_in_process(i, &Sett::bare_scale(sc))).collect());
                }
                let inputs = Arc::new(inputs);
                let mut hs = vec![];
                let barrier = Arc::new(std::sync::Barrier::new(scales.len()));
                for (t, sc) in scales.iter().enumerate() {
                    let inputs = inputs.clone();
                    let sc = *sc;
                    let barrier = barrier.clone();
                    hs.push(std::thread::spawn(move || {
                        let mut outs = vec![];
                        barrier.wait();
                        for _ in 0..120 {
                            for i in inputs.iter() {
                                outs.push(convert_in_process(i, &Sett::bare_scale(sc)));
                            }
                        }
                        (t, outs)
                    }));
                }
                // join every thread before judging: a thread left running would still use the tables that the next
                // case of this worker resets
                let joined: Vec<_> = hs.into_iter().map(|h| h.join()).collect();
                for j in joined {
                    let (t, outs) = match j {
                        Ok(x) => x,
                        Err(_) => {
                            cx.fail("free-running", "a free-running thread panicked".into());
                            return;
                        }
                    };
                    cx.conversions += outs.len() as u64;
                    for (k, o) in outs.iter().enumerate() {
                        cx.compared();
                        if *o != refs[t][k % refs[t].len()] {
                            cx.fail("free-running", format!("thread {} at scale {}: conversion #{} of input {:?} differs from the sequential result while other threads convert at other scales", t, scales[t], k, crate::runner::trunc(&inputs[k % inputs.len()], 60)));
                            return;
                        }
                    }
                }
                cx.outcome(&("free-running", case.n[0]));
            }
            "seam-all-orders" | "seam-structured" => {
                let sett = Sett::bare();
                verif::set_order(None);
                MAX_N.with(|m| m.set(0));
                // canonical order, also measures the largest map
                verif::set_order(Some(order_cb));
                ORDER_SPEC.with(|s| s.set((2, 0)));
                let base = convert_in_process(&case.s, &sett);
                cx.conversions += 1;
                let maxn = MAX_N.with(|m| m.get());
                let mut specs: Vec<(u8, usize)> = vec![];
                if scope == "seam-all-orders" {
                    if maxn <= 5 {
                        for k in 1..factorial(maxn) {
                            specs.push((0, k));
                        }
                    } else {
                        cx.tally("seam: map larger than 5, structured orders used");
                        specs.push((1, 0));
                        specs.push((4, 0));
                    }
                } else {
                    specs.push((1, 0));
                    specs.push((4, 0));
                    for k in 1..maxn.min(7) {
                        specs.push((2, k));
                    }
                    for k in 0..maxn.saturating_sub(1).min(6) {
                        specs.push((3, k));
                    }
                }
                for (kind, k) in specs {
                    ORDER_SPEC.with(|s| s.set((kind, k)));
                    if scope == "seam-structured" {
                        // the tables themselves must not depend on the iteration order either
                        unsafe { verif::reset_all() };
                    }
                    let o = convert_in_process(&case.s, &sett);
                    cx.conversions += 1;
                    cx.compared();
                    if o != base {
                        verif::set_order(None);
                        cx.fail(
                            "hash-order-dependent",
                            format!("forcing iteration order (kind {}, k {}) of the property map (largest map {} entries) changes the output", kind, k, maxn),
                        );
                        return;
                    }
                }
                verif::set_order(None);
                cx.tally_n("seam-forced-iterations", SEAM_CALLS.with(|c| c.replace(0)));
                if maxn >= 2 {
                    cx.outcome(&("seam", maxn, base.map(|b| b.len()).unwrap_or(0) / 64));
                }
            }
            _ => {
                let (h, bound, child) = (case.n[0], case.n[1] as usize, case.n[2]);
                let hv = harness(h);
                let bodies = bodies_of(&hv);
                let alpha = sched_alphabet();
                let refs = match references() {
                    Ok(r) => r,
                    Err(e) => {
                        cx.machinery.push(format!("cannot compute fresh references: {}", e));
                        return;
                    }
                };
                let want: Vec<Vec<&String>> = hv.iter().map(|idxs| idxs.iter().map(|i| &refs[*i]).collect()).collect();
                if let Some(spec) = case.x.first() {
                    // replay of one recorded schedule, twice
                    let prefix: Vec<usize> = spec.split(',').filter_map(|t| t.trim().parse().ok()).collect();
                    let a = sched::run(&bodies, &prefix);
                    let b = sched::run(&bodies, &prefix);
                    cx.conversions += 2 * hv.iter().map(|t| t.len() as u64).sum::<u64>();
                    if a.points != b.points {
                        cx.machinery.push(format!("harness {}: the recorded schedule does not replay deterministically (point sequences differ)", h));
                    }
                    for x in [&a, &b] {
                        cx.compared();
                        if x.deadlock {
                            cx.fail("deadlock", format!("harness {}: no enabled thread under schedule {:?}", h, prefix));
                            return;
                        }
                        for (t, outs) in x.outputs.iter().enumerate() {
                            for (j, o) in outs.iter().enumerate() {
                                if o.as_ref().ok() != want[t].get(j).copied() {
                                    cx.fail("schedule-dependent", format!("harness {}: thread {} conversion {} differs from its sequential result under the recorded schedule {:?}", h, t, j, prefix));
                                    return;
                                }
                            }
                        }
                    }
                    return;
                }
                let (root, mut kids) = sched::root_children(&bodies, bound);
                cx.conversions += hv.iter().map(|t| t.len() as u64).sum::<u64>();
                let (mode, slots) = (case.n.get(3).copied().unwrap_or(0), case.n.get(4).copied().unwrap_or(256) as usize);
                if mode == 1 {
                    // keep the subtrees whose first deviation sits at the first, middle or last occurrence of its (thread, event)
                    let mut occ: std::collections::BTreeMap<(usize, String), Vec<usize>> = Default::default();
                    for (i, p) in root.points.iter().enumerate() {
                        occ.entry((p.thread, p.event.clone())).or_default().push(i);
                    }
                    let mut keep: std::collections::BTreeSet<usize> = Default::default();
                    for v in occ.values() {
                        keep.insert(v[0]);
                        keep.insert(v[v.len() / 2]);
                        keep.insert(v[v.len() - 1]);
                    }
                    kids.retain(|k| keep.contains(&(k.len() - 1)));
                }
                let judge = |cx: &mut Cx, choices: &[usize], x: &sched::Execution| -> bool {
                    cx.compared();
                    if let Some(e) = &x.replay_error {
                        cx.machinery.push(format!("harness {}: {}", h, e));
                        return false;
                    }
                    let exact = Case::snx("schedule", vec![h, bound as i64, -2], vec![choices.iter().map(|c| c.to_string()).collect::<Vec<_>>().join(",")]);
                    if x.deadlock {
                        cx.fail_case("deadlock", format!("harness {} ({:?}): no enabled thread under schedule {:?}", h, hv, choices), exact);
                        return false;
                    }
                    for (t, outs) in x.outputs.iter().enumerate() {
                        for (j, o) in outs.iter().enumerate() {
                            let ok = match o {
                                Ok(s) => want[t].get(j).map(|w| *w == s).unwrap_or(false),
                                Err(_) => false,
                            };
                            if !ok {
                                cx.fail_case(
                                    "schedule-dependent",
                                    format!(
                                        "harness {}: thread {} conversion {} ({:?}) differs from its sequential fresh-process result under schedule {:?}{}",
                                        h,
                                        t,
                                        j,
                                        crate::runner::trunc(&alpha[hv[t][j]].0, 60),
                                        choices,
                                        match o {
                                            Err(e) => format!(" ({})", e),
                                            _ => String::new(),
                                        }
                                    ),
                                    exact.clone(),
                                );
                                return false;
                            }
                        }
                    }
                    true
                };
                if child < 0 {
                    // the default execution; and the proof that the harness owns every choice:
                    // replay one non-trivial schedule twice
                    let choices: Vec<usize> = root.points.iter().map(|p| p.choice).collect();
                    if !judge(cx, &choices, &root) {
                        return;
                    }
                    if let Some(k) = kids.get(kids.len() / 2) {
                        let a = sched::run(&bodies, k);
                        let b = sched::run(&bodies, k);
                        cx.conversions += 2 * hv.iter().map(|t| t.len() as u64).sum::<u64>();
                        if a.points != b.points || a.outputs != b.outputs {
                            cx.machinery.push(format!("harness {}: replaying schedule {:?} twice gave different point sequences or outputs (uncontrolled nondeterminism)", h, k));
                            return;
                        }
                        cx.tally("schedule-replayed-twice-identically");
                    }
                    cx.tally_n(&format!("harness {} points in the default execution", h), root.points.len() as u64);
                    cx.tally_n(&format!("harness {} subtrees", h), kids.len() as u64);
                    if kids.len() > slots {
                        cx.machinery.push(format!("harness {} has {} subtrees, more than the {} slots", h, kids.len(), slots));
                    }
                    cx.outcome(&("schedule-root", h, root.points.len()));
                    return;
                }
                let kid = match kids.get(child as usize) {
                    Some(k) => k.clone(),
                    None => return,
                };
                let mut ok = true;
                let per = hv.iter().map(|t| t.len() as u64).sum::<u64>();
                let mut n = 0u64;
                let mut distinct: Vec<u64> = vec![];
                let ex = sched::explore(&bodies, kid, bound, 200_000, &mut |choices, x| {
                    n += 1;
                    distinct.push(runner::hash64(&x.points.iter().map(|p| (p.thread, p.event.clone())).collect::<Vec<_>>()));
                    ok = judge(cx, choices, x);
                    ok
                });
                cx.conversions += n * per;
                cx.tally_n("schedules-explored", ex.executions);
                if ex.capped {
                    cx.tally("schedule-subtree-capped");
                }
                for d in distinct {
                    cx.outcome(&("schedule", h, d));
                }
            }
        }
    }
}
