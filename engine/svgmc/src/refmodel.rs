//! Small reference models shared by several checks.
use crate::enumr::char_cols;

/// split into rows the way `str::lines` does (LF or CRLF terminated, a final
/// empty piece is dropped)
pub fn rows(s: &str) -> Vec<String> {
    s.lines().map(|l| l.to_string()).collect()
}

/// column-expanded row: each char followed by NUL fillers for its extra columns
pub fn expand(row: &str) -> Vec<char> {
    let mut v = vec![];
    for c in row.chars() {
        v.push(c);
        for _ in 1..char_cols(c) {
            v.push('\0');
        }
    }
    v
}

/// reference quote scanner on an expanded row (no backslashes assumed):
/// pairs of quote positions, left to right; a dangling last quote stays literal
pub fn quote_pairs(row: &[char]) -> Vec<(usize, usize)> {
    let q: Vec<usize> = row.iter().enumerate().filter(|(_, c)| **c == '"').map(|(i, _)| i).collect();
    q.chunks(2).filter(|c| c.len() == 2).map(|c| (c[0], c[1])).collect()
}

/// the part of the input that is drawn: everything before a "# Legend:" that
/// the legend grammar accepts; this model only recognises the cut position
/// (callers that need the exact grammar use inputs where it is unambiguous)
pub fn legend_cut(s: &str) -> Option<usize> {
    s.find("# Legend:")
}

/// occupied cells (col,row,char) of a quote-free, legend-free input
pub fn cells(s: &str) -> Vec<(usize, usize, char)> {
    let mut v = vec![];
    for (r, row) in rows(s).iter().enumerate() {
        for (c, ch) in expand(row).into_iter().enumerate() {
            if ch != '\0' && !ch.is_whitespace() {
                v.push((c, r, ch));
            }
        }
    }
    v
}
