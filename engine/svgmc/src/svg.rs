//! Typed model of svgbob's output vocabulary, built from the xmlmini tree.
use crate::xmlmini::{self, Child, Element};

#[derive(Debug, Clone, Copy, PartialEq, Eq, PartialOrd, Ord, Hash)]
pub enum Kind {
    Line,
    Rect,
    Circle,
    Path,
    Polygon,
    Text,
}

impl Kind {
    pub fn name(self) -> &'static str {
        match self {
            Kind::Line => "line",
            Kind::Rect => "rect",
            Kind::Circle => "circle",
            Kind::Path => "path",
            Kind::Polygon => "polygon",
            Kind::Text => "text",
        }
    }
}

/// One drawn element.  Coordinates are split into x positions, y positions
/// and lengths so that translation and scaling can be expressed generically:
/// line: xs=[x1,x2] ys=[y1,y2]; rect: xs=[x] ys=[y] lens=[w,h,rx];
/// circle: xs=[cx] ys=[cy] lens=[r]; path (one arc): xs=[sx,ex] ys=[sy,ey]
/// lens=[rx,ry] flags=[rotation,large,sweep]; polygon: xs/ys of its points;
/// text: xs=[x] ys=[y] text=content.
#[derive(Debug, Clone, PartialEq)]
pub struct El {
    pub kind: Kind,
    pub cls: Vec<String>,
    pub group: Option<u32>,
    pub xs: Vec<f64>,
    pub ys: Vec<f64>,
    pub lens: Vec<f64>,
    pub flags: Vec<u8>,
    pub text: String,
}

#[derive(Debug, Clone)]
pub struct Doc {
    pub w: f64,
    pub h: f64,
    pub style: Option<String>,
    pub has_defs: bool,
    /// x, y, width, height of the backdrop rect
    pub backdrop: Option<[f64; 4]>,
    pub elems: Vec<El>,
    pub groups: u32,
}

#[derive(Debug, Clone, PartialEq)]
pub enum SvgErr {
    /// not well-formed XML
    Xml(String),
    /// well-formed, but a number does not parse as a finite decimal
    BadNumber(String),
    /// well-formed, but outside the vocabulary this model knows
    Unknown(String),
}

impl std::fmt::Display for SvgErr {
    fn fmt(&self, f: &mut std::fmt::Formatter) -> std::fmt::Result {
        match self {
            SvgErr::Xml(s) => write!(f, "not well-formed: {}", s),
            SvgErr::BadNumber(s) => write!(f, "bad number: {}", s),
            SvgErr::Unknown(s) => write!(f, "unknown vocabulary: {}", s),
        }
    }
}

/// decimal number grammar: -?digits(.digits)? ; Rust prints f32 that way
pub fn parse_num(s: &str) -> Result<f64, SvgErr> {
    let b = s.as_bytes();
    let mut i = 0;
    if i < b.len() && b[i] == b'-' {
        i += 1;
    }
    let d0 = i;
    while i < b.len() && b[i].is_ascii_digit() {
        i += 1;
    }
    if i == d0 {
        return Err(SvgErr::BadNumber(s.to_string()));
    }
    if i < b.len() && b[i] == b'.' {
        i += 1;
        let d1 = i;
        while i < b.len() && b[i].is_ascii_digit() {
            i += 1;
        }
        if i == d1 {
            return Err(SvgErr::BadNumber(s.to_string()));
        }
    }
    if i != b.len() {
        return Err(SvgErr::BadNumber(s.to_string()));
    }
    s.parse::<f64>().map_err(|_| SvgErr::BadNumber(s.to_string()))
}

fn num_attr(e: &Element, n: &str) -> Result<f64, SvgErr> {
    match e.attr(n) {
        Some(v) => parse_num(v),
        None => Err(SvgErr::Unknown(format!("<{}> without {}", e.name, n))),
    }
}

fn classes(e: &Element) -> Vec<String> {
    let mut v: Vec<String> = e
        .attr("class")
        .unwrap_or("")
        .split_whitespace()
        .map(|s| s.to_string())
        .collect();
    v.sort();
    v
}

fn only_attrs(e: &Element, allowed: &[&str]) -> Result<(), SvgErr> {
    for (n, _) in &e.attrs {
        if !allowed.contains(&n.as_str()) {
            return Err(SvgErr::Unknown(format!("attribute {} on <{}>", n, e.name)));
        }
    }
    Ok(())
}

fn no_children(e: &Element) -> Result<(), SvgErr> {
    for c in &e.children {
        match c {
            Child::Elem(x) => return Err(SvgErr::Unknown(format!("<{}> inside <{}>", x.name, e.name))),
            Child::Text(t) if !t.trim().is_empty() => {
                return Err(SvgErr::Unknown(format!("text inside <{}>", e.name)))
            }
            _ => {}
        }
    }
    Ok(())
}

pub fn parse_points(s: &str) -> Result<(Vec<f64>, Vec<f64>), SvgErr> {
    let mut xs = vec![];
    let mut ys = vec![];
    for p in s.split(' ') {
        let mut it = p.split(',');
        let (a, b) = (it.next(), it.next());
        if it.next().is_some() {
            return Err(SvgErr::BadNumber(s.to_string()));
        }
        match (a, b) {
            (Some(a), Some(b)) => {
                xs.push(parse_num(a)?);
                ys.push(parse_num(b)?);
            }
            _ => return Err(SvgErr::BadNumber(s.to_string())),
        }
    }
    Ok((xs, ys))
}

/// "M x,y A r,r rot,large,sweep x,y"
pub fn parse_arc(d: &str) -> Result<([f64; 2], [f64; 2], [f64; 2], [u8; 3]), SvgErr> {
    let t: Vec<&str> = d.split(' ').collect();
    let bad = || SvgErr::BadNumber(format!("path d={}", d));
    if t.len() != 6 || t[0] != "M" || t[2] != "A" {
        return Err(SvgErr::Unknown(format!("path d={}", d)));
    }
    let two = |s: &str| -> Result<[f64; 2], SvgErr> {
        let v: Vec<&str> = s.split(',').collect();
        if v.len() != 2 {
            return Err(bad());
        }
        Ok([parse_num(v[0])?, parse_num(v[1])?])
    };
    let s = two(t[1])?;
    let r = two(t[3])?;
    let e = two(t[5])?;
    let fl: Vec<&str> = t[4].split(',').collect();
    if fl.len() != 3 || fl.iter().any(|f| *f != "0" && *f != "1") {
        return Err(bad());
    }
    let f = [
        (fl[0] == "1") as u8,
        (fl[1] == "1") as u8,
        (fl[2] == "1") as u8,
    ];
    Ok((s, e, r, f))
}

fn shape(e: &Element, group: Option<u32>) -> Result<El, SvgErr> {
    let mut el = El {
        kind: Kind::Line,
        cls: classes(e),
        group,
        xs: vec![],
        ys: vec![],
        lens: vec![],
        flags: vec![],
        text: String::new(),
    };
    match e.name.as_str() {
        "line" => {
            only_attrs(e, &["x1", "y1", "x2", "y2", "class"])?;
            no_children(e)?;
            el.kind = Kind::Line;
            el.xs = vec![num_attr(e, "x1")?, num_attr(e, "x2")?];
            el.ys = vec![num_attr(e, "y1")?, num_attr(e, "y2")?];
        }
        "rect" => {
            only_attrs(e, &["x", "y", "width", "height", "rx", "class"])?;
            no_children(e)?;
            el.kind = Kind::Rect;
            el.xs = vec![num_attr(e, "x")?];
            el.ys = vec![num_attr(e, "y")?];
            el.lens = vec![num_attr(e, "width")?, num_attr(e, "height")?, num_attr(e, "rx")?];
        }
        "circle" => {
            only_attrs(e, &["cx", "cy", "r", "class"])?;
            no_children(e)?;
            el.kind = Kind::Circle;
            el.xs = vec![num_attr(e, "cx")?];
            el.ys = vec![num_attr(e, "cy")?];
            el.lens = vec![num_attr(e, "r")?];
        }
        "path" => {
            only_attrs(e, &["d", "class"])?;
            no_children(e)?;
            el.kind = Kind::Path;
            let d = e.attr("d").ok_or_else(|| SvgErr::Unknown("path without d".into()))?;
            let (s, en, r, f) = parse_arc(d)?;
            el.xs = vec![s[0], en[0]];
            el.ys = vec![s[1], en[1]];
            el.lens = r.to_vec();
            el.flags = f.to_vec();
        }
        "polygon" => {
            only_attrs(e, &["points", "class"])?;
            no_children(e)?;
            el.kind = Kind::Polygon;
            let p = e.attr("points").ok_or_else(|| SvgErr::Unknown("polygon without points".into()))?;
            let (xs, ys) = parse_points(p)?;
            el.xs = xs;
            el.ys = ys;
        }
        "text" => {
            only_attrs(e, &["x", "y", "class"])?;
            for c in &e.children {
                if let Child::Elem(x) = c {
                    return Err(SvgErr::Unknown(format!("<{}> inside <text>", x.name)));
                }
            }
            el.kind = Kind::Text;
            el.xs = vec![num_attr(e, "x")?];
            el.ys = vec![num_attr(e, "y")?];
            el.text = e.text();
        }
        other => return Err(SvgErr::Unknown(format!("element <{}>", other))),
    }
    Ok(el)
}

pub fn from_tree(root: &Element) -> Result<Doc, SvgErr> {
    if root.name != "svg" {
        return Err(SvgErr::Unknown(format!("root <{}>", root.name)));
    }
    only_attrs(root, &["xmlns", "width", "height", "class"])?;
    let mut doc = Doc {
        w: num_attr(root, "width")?,
        h: num_attr(root, "height")?,
        style: None,
        has_defs: false,
        backdrop: None,
        elems: vec![],
        groups: 0,
    };
    for c in &root.children {
        match c {
            Child::Text(t) => {
                if !t.trim().is_empty() {
                    return Err(SvgErr::Unknown("text directly inside <svg>".into()));
                }
            }
            Child::Elem(e) => match e.name.as_str() {
                "style" => {
                    if doc.style.is_some() {
                        return Err(SvgErr::Unknown("two <style>".into()));
                    }
                    for c in &e.children {
                        if let Child::Elem(x) = c {
                            return Err(SvgErr::Unknown(format!("<{}> inside <style>", x.name)));
                        }
                    }
                    doc.style = Some(e.text());
                }
                "defs" => {
                    if doc.has_defs {
                        return Err(SvgErr::Unknown("two <defs>".into()));
                    }
                    doc.has_defs = true;
                }
                "g" => {
                    only_attrs(e, &["class"])?;
                    let gi = doc.groups;
                    doc.groups += 1;
                    for c in &e.children {
                        match c {
                            Child::Text(t) if t.trim().is_empty() => {}
                            Child::Text(_) => return Err(SvgErr::Unknown("text inside <g>".into())),
                            Child::Elem(x) => doc.elems.push(shape(x, Some(gi))?),
                        }
                    }
                }
                "rect" if e.attr("class") == Some("backdrop") => {
                    if doc.backdrop.is_some() {
                        return Err(SvgErr::Unknown("two backdrops".into()));
                    }
                    only_attrs(e, &["x", "y", "width", "height", "class"])?;
                    doc.backdrop = Some([
                        num_attr(e, "x")?,
                        num_attr(e, "y")?,
                        num_attr(e, "width")?,
                        num_attr(e, "height")?,
                    ]);
                }
                _ => doc.elems.push(shape(e, None)?),
            },
        }
    }
    Ok(doc)
}

pub fn parse(svg: &str) -> Result<Doc, SvgErr> {
    let d = xmlmini::parse(svg).map_err(|e| SvgErr::Xml(format!("{} at char {}", e.msg, e.pos)))?;
    from_tree(&d.root)
}

impl El {
    pub fn translated(&self, dx: f64, dy: f64) -> El {
        let mut e = self.clone();
        for x in e.xs.iter_mut() {
            *x += dx
        }
        for y in e.ys.iter_mut() {
            *y += dy
        }
        e
    }
    pub fn scaled(&self, f: f64) -> El {
        let mut e = self.clone();
        for x in e.xs.iter_mut() {
            *x *= f
        }
        for y in e.ys.iter_mut() {
            *y *= f
        }
        for l in e.lens.iter_mut() {
            *l *= f
        }
        e
    }
    pub fn has_class(&self, c: &str) -> bool {
        self.cls.iter().any(|x| x == c)
    }
    pub fn is_marked(&self) -> bool {
        self.cls.iter().any(|c| c.starts_with("start_marked_") || c.starts_with("end_marked_"))
    }
    /// same kind, classes, flags, text and number of coordinates
    pub fn same_shape(&self, o: &El) -> bool {
        self.kind == o.kind
            && self.cls == o.cls
            && self.flags == o.flags
            && self.text == o.text
            && self.xs.len() == o.xs.len()
            && self.ys.len() == o.ys.len()
            && self.lens.len() == o.lens.len()
    }
    /// equality within an absolute tolerance on every number (group ignored)
    pub fn close_to(&self, o: &El, tol: f64) -> bool {
        self.same_shape(o)
            && self.xs.iter().zip(&o.xs).all(|(a, b)| (a - b).abs() <= tol)
            && self.ys.iter().zip(&o.ys).all(|(a, b)| (a - b).abs() <= tol)
            && self.lens.iter().zip(&o.lens).all(|(a, b)| (a - b).abs() <= tol)
    }
    pub fn brief(&self) -> String {
        let f = |v: &Vec<f64>| v.iter().map(|x| format!("{}", x)).collect::<Vec<_>>().join(",");
        format!(
            "{}{}[{}|{}|{}]{}{}{}",
            self.kind.name(),
            if self.group.is_some() { "@g" } else { "" },
            f(&self.xs),
            f(&self.ys),
            f(&self.lens),
            if self.flags.is_empty() { String::new() } else { format!("f{:?}", self.flags) },
            if self.cls.is_empty() { String::new() } else { format!(".{}", self.cls.join(".")) },
            if self.kind == Kind::Text { format!(" {:?}", self.text) } else { String::new() }
        )
    }
    /// bounding box (x0,y0,x1,y1) of the geometry, text as its anchor only
    pub fn bbox(&self) -> (f64, f64, f64, f64) {
        match self.kind {
            Kind::Rect => (self.xs[0], self.ys[0], self.xs[0] + self.lens[0], self.ys[0] + self.lens[1]),
            Kind::Circle => (
                self.xs[0] - self.lens[0],
                self.ys[0] - self.lens[0],
                self.xs[0] + self.lens[0],
                self.ys[0] + self.lens[0],
            ),
            Kind::Path => arc_bbox(self),
            _ => {
                let mn = |v: &Vec<f64>| v.iter().cloned().fold(f64::INFINITY, f64::min);
                let mx = |v: &Vec<f64>| v.iter().cloned().fold(f64::NEG_INFINITY, f64::max);
                (mn(&self.xs), mn(&self.ys), mx(&self.xs), mx(&self.ys))
            }
        }
    }
}

/// centre of an SVG elliptical arc with rx == ry == r (SVG implementation
/// notes F.6.5), returns (cx, cy, effective r)
pub fn arc_center(sx: f64, sy: f64, ex: f64, ey: f64, r: f64, large: bool, sweep: bool) -> (f64, f64, f64) {
    let dx2 = (sx - ex) / 2.0;
    let dy2 = (sy - ey) / 2.0;
    let mut r = r.abs();
    let lam = (dx2 * dx2 + dy2 * dy2) / (r * r);
    if lam > 1.0 {
        r *= lam.sqrt();
    }
    let num = r * r * r * r - r * r * dy2 * dy2 - r * r * dx2 * dx2;
    let den = r * r * dy2 * dy2 + r * r * dx2 * dx2;
    let mut co = if den == 0.0 { 0.0 } else { (num.max(0.0) / den).sqrt() };
    if large == sweep {
        co = -co;
    }
    let cxp = co * dy2;
    let cyp = -co * dx2;
    (cxp + (sx + ex) / 2.0, cyp + (sy + ey) / 2.0, r)
}

/// exact bounding box of a circular arc element
pub fn arc_bbox(e: &El) -> (f64, f64, f64, f64) {
    let (sx, sy, ex, ey) = (e.xs[0], e.ys[0], e.xs[1], e.ys[1]);
    let (cx, cy, r) = arc_center(sx, sy, ex, ey, e.lens[0], e.flags[1] == 1, e.flags[2] == 1);
    let a0 = (sy - cy).atan2(sx - cx);
    let a1 = (ey - cy).atan2(ex - cx);
    let sweep = e.flags[2] == 1;
    // angle travelled from a0 to a1 in the sweep direction (positive angle = clockwise on screen)
    let tau = std::f64::consts::PI * 2.0;
    let mut delta = if sweep { a1 - a0 } else { a0 - a1 };
    while delta < 0.0 {
        delta += tau
    }
    while delta > tau {
        delta -= tau
    }
    let mut x0 = sx.min(ex);
    let mut x1 = sx.max(ex);
    let mut y0 = sy.min(ey);
    let mut y1 = sy.max(ey);
    for k in 0..4 {
        let ang = k as f64 * std::f64::consts::FRAC_PI_2;
        let mut d = if sweep { ang - a0 } else { a0 - ang };
        while d < 0.0 {
            d += tau
        }
        while d >= tau {
            d -= tau
        }
        if d <= delta + 1e-9 {
            let px = cx + r * ang.cos();
            let py = cy + r * ang.sin();
            x0 = x0.min(px);
            x1 = x1.max(px);
            y0 = y0.min(py);
            y1 = y1.max(py);
        }
    }
    (x0, y0, x1, y1)
}

/// multiset equality of two element lists within a tolerance; returns the
/// unmatched elements of both sides
pub fn multiset_diff(a: &[El], b: &[El], tol: f64) -> (Vec<El>, Vec<El>) {
    let mut used = vec![false; b.len()];
    let mut only_a = vec![];
    for x in a {
        let mut found = false;
        for (j, y) in b.iter().enumerate() {
            if !used[j] && x.close_to(y, tol) {
                used[j] = true;
                found = true;
                break;
            }
        }
        if !found {
            only_a.push(x.clone());
        }
    }
    let only_b = b
        .iter()
        .enumerate()
        .filter(|(j, _)| !used[*j])
        .map(|(_, y)| y.clone())
        .collect();
    (only_a, only_b)
}

impl Doc {
    /// multiset of element kinds with classes: the "output skeleton"
    pub fn skeleton(&self) -> String {
        let mut v: Vec<String> = self
            .elems
            .iter()
            .map(|e| {
                format!(
                    "{}{}.{}",
                    e.kind.name(),
                    if e.group.is_some() { "@g" } else { "" },
                    e.cls.join(".")
                )
            })
            .collect();
        v.sort();
        v.join(" ")
    }
    pub fn of(&self, k: Kind) -> impl Iterator<Item = &El> {
        self.elems.iter().filter(move |e| e.kind == k)
    }
    pub fn count(&self, k: Kind) -> usize {
        self.of(k).count()
    }
}
