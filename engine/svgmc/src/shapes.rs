//! Parametric shape families and alphabets.
use std::collections::BTreeMap;

/// characters with an entry in the live ASCII property table
pub fn sigma_ascii() -> Vec<char> {
    svgbob::map::ASCII_PROPERTIES.keys().cloned().collect()
}

/// characters with an entry in the live unicode fragment table
pub fn sigma_uni() -> Vec<char> {
    svgbob::map::UNICODE_FRAGMENTS.keys().cloned().collect()
}

/// the live circle catalogue as drawings (rows of text), in table order
pub fn live_catalog() -> Vec<String> {
    let mut out = vec![];
    for (_circle, span) in svgbob::map::CIRCLES_SPAN.iter() {
        let mut rows: BTreeMap<i32, BTreeMap<i32, char>> = BTreeMap::new();
        for (cell, ch) in span.0.iter() {
            rows.entry(cell.y).or_default().insert(cell.x, *ch);
        }
        let maxy = rows.keys().cloned().max().unwrap_or(0);
        let mut s = String::new();
        for y in 0..=maxy {
            if y > 0 {
                s.push('\n');
            }
            if let Some(r) = rows.get(&y) {
                let maxx = r.keys().cloned().max().unwrap_or(0);
                for x in 0..=maxx {
                    s.push(*r.get(&x).unwrap_or(&' '));
                }
            }
        }
        out.push(s);
    }
    out
}

pub fn print_live_catalog() {
    for d in live_catalog() {
        println!("{}", d);
        println!("====");
    }
}

/// the fixed copy of the documented catalogue kept under /verif/catalog
pub fn catalog() -> Vec<String> {
    let p = format!("{}/catalog/circles.txt", crate::runner::VERIF_DIR);
    let txt = std::fs::read_to_string(&p).unwrap_or_default();
    let mut out = vec![];
    let mut cur: Vec<&str> = vec![];
    for l in txt.split('\n') {
        if l == "====" {
            out.push(cur.join("\n"));
            cur.clear();
        } else {
            cur.push(l);
        }
    }
    out
}

#[derive(Debug, Clone, Copy, PartialEq)]
pub struct BoxStyle {
    pub tl: char,
    pub tr: char,
    pub bl: char,
    pub br: char,
    pub hor: char,
    pub ver: char,
}

pub const SHARP: BoxStyle = BoxStyle { tl: '+', tr: '+', bl: '+', br: '+', hor: '-', ver: '|' };

/// the box styles of the statement: sharp, the four rounded corner
/// combinations, each with '-' or '~' horizontals, and the box-drawing
/// equivalents
pub fn box_styles() -> Vec<(&'static str, BoxStyle)> {
    let mut v = vec![
        ("sharp", SHARP),
        ("sharp~", BoxStyle { hor: '~', ..SHARP }),
        ("round.'", BoxStyle { tl: '.', tr: '.', bl: '\'', br: '\'', hor: '-', ver: '|' }),
        ("round,'", BoxStyle { tl: ',', tr: '.', bl: '\'', br: '\'', hor: '-', ver: '|' }),
        ("round.`", BoxStyle { tl: '.', tr: '.', bl: '`', br: '\'', hor: '-', ver: '|' }),
        ("round,`", BoxStyle { tl: ',', tr: '.', bl: '`', br: '\'', hor: '-', ver: '|' }),
        ("round.'~", BoxStyle { tl: '.', tr: '.', bl: '\'', br: '\'', hor: '~', ver: '|' }),
        ("boxdraw", BoxStyle { tl: '┌', tr: '┐', bl: '└', br: '┘', hor: '─', ver: '│' }),
        ("boxround", BoxStyle { tl: '╭', tr: '╮', bl: '╰', br: '╯', hor: '─', ver: '│' }),
        // mixed families: ASCII corners with box-drawing lines and the other way round
        ("mixed+─│", BoxStyle { tl: '+', tr: '+', bl: '+', br: '+', hor: '─', ver: '│' }),
        ("mixed+-│", BoxStyle { tl: '+', tr: '+', bl: '+', br: '+', hor: '-', ver: '│' }),
        ("mixed.─|", BoxStyle { tl: '.', tr: '.', bl: '\'', br: '\'', hor: '─', ver: '|' }),
        ("mixed┌-|", BoxStyle { tl: '┌', tr: '┐', bl: '└', br: '┘', hor: '-', ver: '|' }),
    ];
    v.shrink_to_fit();
    v
}

impl BoxStyle {
    pub fn is_rounded(&self) -> bool {
        matches!(self.tl, '.' | ',' | '╭')
    }
    pub fn is_unicode(&self) -> bool {
        self.tl == '┌' || self.tl == '╭'
    }
}

/// a box with inner width w and inner height h; `sides` gives the character
/// of the left and right side per inner row (defaults to st.ver); `interior`
/// rows are written into the inside (left aligned, clipped)
pub fn box_rows(st: &BoxStyle, w: usize, h: usize, sides: Option<&[char]>, interior: &[String]) -> Vec<String> {
    let mut rows = vec![];
    let hor: String = std::iter::repeat(st.hor).take(w).collect();
    rows.push(format!("{}{}{}", st.tl, hor, st.tr));
    for r in 0..h {
        let sc = sides.map(|s| s[r]).unwrap_or(st.ver);
        let mut inner: Vec<char> = vec![' '; w];
        if let Some(t) = interior.get(r) {
            for (i, c) in t.chars().enumerate() {
                if i < w {
                    inner[i] = c;
                }
            }
        }
        let inner: String = inner.into_iter().collect();
        rows.push(format!("{}{}{}", sc, inner, sc));
    }
    rows.push(format!("{}{}{}", st.bl, hor, st.br));
    rows
}

pub fn boxed(st: &BoxStyle, w: usize, h: usize) -> String {
    box_rows(st, w, h, None, &[]).join("\n")
}

/// the cells of a straight run of `len` characters `ch`
/// dir: 0 = horizontal, 1 = vertical, 2 = diagonal down-right (\), 3 = diagonal up-right (/)
pub fn run(ch: char, len: usize, dir: u8) -> String {
    match dir {
        0 => std::iter::repeat(ch).take(len).collect(),
        1 => {
            let v: Vec<String> = (0..len).map(|_| ch.to_string()).collect();
            v.join("\n")
        }
        2 => {
            let v: Vec<String> = (0..len).map(|i| format!("{}{}", " ".repeat(i), ch)).collect();
            v.join("\n")
        }
        _ => {
            let v: Vec<String> = (0..len).map(|i| format!("{}{}", " ".repeat(len - 1 - i), ch)).collect();
            v.join("\n")
        }
    }
}

/// put characters on a sparse canvas and print it
#[derive(Default, Clone)]
pub struct Canvas {
    cells: BTreeMap<(i32, i32), char>,
}

impl Canvas {
    pub fn new() -> Canvas {
        Canvas::default()
    }
    pub fn put(&mut self, x: i32, y: i32, c: char) {
        self.cells.insert((y, x), c);
    }
    pub fn get(&self, x: i32, y: i32) -> char {
        *self.cells.get(&(y, x)).unwrap_or(&' ')
    }
    pub fn text(&mut self, x: i32, y: i32, s: &str) {
        for (i, c) in s.chars().enumerate() {
            if c != ' ' {
                self.put(x + i as i32, y, c);
            }
        }
    }
    pub fn paste(&mut self, x: i32, y: i32, drawing: &str) {
        for (r, l) in drawing.split('\n').enumerate() {
            self.text(x, y + r as i32, l);
        }
    }
    /// shift so that the minimum occupied column/row is at (ox, oy) and print
    pub fn render_at(&self, ox: i32, oy: i32) -> String {
        if self.cells.is_empty() {
            return String::new();
        }
        let miny = self.cells.keys().map(|k| k.0).min().unwrap();
        let minx = self.cells.keys().map(|k| k.1).min().unwrap();
        let maxy = self.cells.keys().map(|k| k.0).max().unwrap();
        let mut rows: Vec<String> = vec![];
        for _ in 0..oy {
            rows.push(String::new());
        }
        for y in miny..=maxy {
            let mut row: Vec<char> = vec![];
            for (k, c) in self.cells.range((y, i32::MIN)..=(y, i32::MAX)) {
                let x = (k.1 - minx + ox) as usize;
                while row.len() < x {
                    row.push(' ');
                }
                row.push(*c);
            }
            rows.push(row.into_iter().collect());
        }
        rows.join("\n")
    }
    pub fn render(&self) -> String {
        self.render_at(0, 0)
    }
}

/// unit step of the eight directions: 0=E 1=SE 2=S 3=SW 4=W 5=NW 6=N 7=NE
pub fn dir_step(d: u8) -> (i32, i32) {
    match d % 8 {
        0 => (1, 0),
        1 => (1, 1),
        2 => (0, 1),
        3 => (-1, 1),
        4 => (-1, 0),
        5 => (-1, -1),
        6 => (0, -1),
        _ => (1, -1),
    }
}

/// the ASCII line character of a direction
pub fn dir_line_char(d: u8) -> char {
    match d % 4 {
        0 => '-',
        1 => '\\',
        2 => '|',
        _ => '/',
    }
}

/// a line of `len` line characters starting at the origin and running in
/// direction `d`, terminated by `head` in the next cell
pub fn line_with_head(d: u8, line_ch: char, len: usize, head: char) -> Canvas {
    let (dx, dy) = dir_step(d);
    let mut c = Canvas::new();
    for i in 0..len as i32 {
        c.put(dx * i, dy * i, line_ch);
    }
    c.put(dx * len as i32, dy * len as i32, head);
    c
}

/// a representative collection of drawings of every family, sizes <= `max`
pub fn family_samples(max: usize) -> Vec<(String, String)> {
    let mut v: Vec<(String, String)> = vec![];
    for (name, st) in box_styles() {
        for (w, h) in [(1usize, 1usize), (2, 1), (3, 2), (8, 3), (max, max / 2)] {
            v.push((format!("box:{}:{}x{}", name, w, h), boxed(&st, w, h)));
        }
    }
    for (i, d) in catalog().into_iter().enumerate() {
        v.push((format!("circle:{}", i), d));
    }
    for ch in ['-', '~', '_', '=', '|', ':', '!', '/', '\\', '─', '│', '┄', '╎', '╲', '╱', '═'] {
        let dir = match ch {
            '|' | ':' | '!' | '│' | '╎' => 1,
            '/' | '╱' => 3,
            '\\' | '╲' => 2,
            _ => 0,
        };
        for l in [1usize, 2, 3, 8, 9, 15, max] {
            v.push((format!("run:{}:{}", ch, l), run(ch, l, dir)));
        }
    }
    for d in 0..8u8 {
        let heads: &[char] = match d {
            0 => &['>', '▶', '►', '▸'],
            4 => &['<', '◀', '◄', '◂'],
            6 => &['^', '▲', '▴'],
            2 => &['v', 'V', '▼', '▾'],
            1 | 3 => &['v', 'V'],
            _ => &['^'],
        };
        for &h in heads {
            for l in [1usize, 3, max.min(12)] {
                v.push((format!("arrow:{}:{}:{}", d, h, l), line_with_head(d, dir_line_char(d), l, h).render()));
            }
        }
        for b in ['*', 'o', 'O'] {
            for l in [1usize, 4] {
                v.push((format!("bullet:{}:{}:{}", d, b, l), line_with_head(d, dir_line_char(d), l, b).render()));
            }
        }
    }
    // rounded outlines with a stub (not endorsed as a rect)
    for (w, h) in [(2usize, 1usize), (4, 2), (10, 4)] {
        let st = BoxStyle { tl: '.', tr: '.', bl: '\'', br: '\'', hor: '-', ver: '|' };
        let mut rows = box_rows(&st, w, h, None, &[]);
        rows[1].push('-');
        v.push((format!("outline:{}x{}", w, h), rows.join("\n")));
    }
    // nested boxes and words
    v.push(("nested".into(), "+--------+\n| +----+ |\n| | ab | |\n| +----+ |\n+--------+".into()));
    v.push(("words".into(), "hello world\n  foo  bar".into()));
    v.push(("cjk".into(), "一二 三\nab 一".into()));
    v.push(("quoted".into(), "\"a-b|c\" x".into()));
    v.push((
        "mixed".into(),
        "  .---.      /\\\n /     \\    /  \\   *--->\n \\     /   +----+\n  `---'    | hi |--o\n           +----+".into(),
    ));
    v
}

/// the bundled example diagrams of the repository (legend stripped when asked)
pub fn bundled_examples() -> Vec<(String, String)> {
    let mut v = vec![];
    let dir = std::env::var("SVGBOB_REPO").unwrap_or_else(|_| "/repo".to_string());
    for sub in ["crates/svgbob/test_data", "crates/svgbob/examples"] {
        if let Ok(rd) = std::fs::read_dir(format!("{}/{}", dir, sub)) {
            let mut files: Vec<_> = rd.filter_map(|e| e.ok()).map(|e| e.path()).collect();
            files.sort();
            for p in files {
                if p.extension().map(|e| e == "bob").unwrap_or(false) {
                    if let Ok(t) = std::fs::read_to_string(&p) {
                        v.push((p.file_name().unwrap().to_string_lossy().to_string(), t));
                    }
                }
            }
        }
    }
    v
}

/// the corpus of the C07 order / process differential
pub fn order_corpus(kind: u32) -> Vec<String> {
    let mut v: Vec<String> = vec![];
    let mut a = sigma_ascii();
    a.extend(sigma_uni());
    for c in &a {
        v.push(c.to_string());
    }
    if kind == 0 {
        for c in &a {
            for d in &a {
                v.push(format!("{}{}", c, d));
            }
        }
    } else {
        crate::enumr::nbhd(&a, &a, 1, &mut |s| v.push(s));
    }
    for (_n, d) in family_samples(10) {
        v.push(d);
    }
    // lookups with several candidate matches: arcs of every size (corrupted circles) and circles touching circles
    v.extend(circle_defect_family(if kind == 0 { 13 } else { 40 }));
    v.extend(touching_circles_family());
    v.extend(circle_parts_family());
    v.extend(overlapping_bbox_family().into_iter().step_by(4));
    // one connected span with more than 4096 property-bearing characters (a very long rule with ticks)
    {
        let mut top = String::new();
        for i in 0..4400 {
            top.push(if i % 100 == 0 { '+' } else { '-' });
        }
        v.push(top);
    }
    // a sheet of several hundred separate groups (work that an implementation might split over threads)
    {
        let mut rows: Vec<String> = vec![];
        for r in 0..16 {
            let pieces: Vec<String> = (0..18).map(|c| match (r + c) % 4 { 0 => "+-+".to_string(), 1 => "-->".to_string(), 2 => format!("w{}", (r * 18 + c) % 10), _ => "*-o".to_string() }).collect();
            rows.push(pieces.join("  "));
            rows.push(String::new());
        }
        v.push(rows.join("\n"));
    }
    for d in [
        "+-------+\n|{a,b,c}|\n+-------+",
        "+---------+\n| {x} {y} |\n| {z}     |\n+---------+",
        ".------.\n|{k,l} |\n'------'\n# Legend:\nk = {fill:red}\nl = {stroke:blue}",
        "\"quoted\" and {tag} text",
        "一二三 {a}",
    ] {
        v.push(d.to_string());
    }
    v
}

/// a permutation of 0..n: 0 = identity, 1 = reverse, others = multiplication by a stride coprime to n plus an offset
pub fn order_perm(n: usize, perm: usize, nperms: usize) -> Vec<usize> {
    if perm == 0 || n < 3 {
        return (0..n).collect();
    }
    if perm == 1 {
        return (0..n).rev().collect();
    }
    fn gcd(a: usize, b: usize) -> usize {
        if b == 0 {
            a
        } else {
            gcd(b, a % b)
        }
    }
    let mut stride = (n / nperms.max(2)) * perm + 1;
    while gcd(stride, n) != 1 {
        stride += 1;
    }
    let off = perm * 7919 % n;
    (0..n).map(|i| (i * stride + off) % n).collect()
}


/// drawings whose top-level fragments have overlapping but not nested bounding boxes:
/// two long parallel diagonals (both directions, several offsets and lengths) with a short
/// run or a label in the intersection of their boxes; a labelled box next to a long diagonal
pub fn overlapping_bbox_family() -> Vec<String> {
    let mut v = vec![];
    for dir in [2u8, 3] {
        for l in [6usize, 9, 12] {
            for gap in [3i32, 5] {
                for inner in ["-", "~", "_", "|", "=", "ab", "a", "--", "*"] {
                    for pos in 0..3 {
                        let mut cv = Canvas::new();
                        for i in 0..l as i32 {
                            let x = if dir == 2 { i } else { l as i32 - 1 - i };
                            cv.put(x, i, if dir == 2 { '\\' } else { '/' });
                            cv.put(x + gap + 2, i, if dir == 2 { '\\' } else { '/' });
                        }
                        // something small between the two diagonals, not touching either
                        let row = (l as i32 / 4) * (pos + 1);
                        let xd = if dir == 2 { row } else { l as i32 - 1 - row };
                        cv.text(xd + 2, row.min(l as i32 - 1), inner);
                        v.push(cv.render());
                    }
                }
            }
        }
    }
    for l in [6usize, 10] {
        for label in ["ab", "x"] {
            let mut cv = Canvas::new();
            cv.paste(0, 1, &format!("+----+\n| {:<2} |\n+----+", label));
            for i in 0..l as i32 {
                cv.put(8 + i, i, '\\');
            }
            v.push(cv.render());
            let mut cv = Canvas::new();
            cv.paste(3, 0, ".-.\n| |\n'-'");
            cv.text(4, 1, "a");
            for i in 0..l as i32 {
                cv.put(l as i32 + 8 - i, i, '/');
            }
            v.push(cv.render());
        }
    }
    v
}

/// pairs of catalogue circles touching or overlapping each other (a bubble on the rim of a bigger circle)
pub fn touching_circles_family() -> Vec<String> {
    let cat = catalog();
    let mut v = vec![];
    for (i, a) in cat.iter().enumerate() {
        for (j, b) in cat.iter().enumerate() {
            if j > 2 || i < 3 || i > 12 {
                continue;
            }
            let (wa, ha) = crate::enumr::extent(a);
            let (wb, hb) = crate::enumr::extent(b);
            for (dx, dy) in [(wa as i32, 0i32), (wa as i32 - 1, 0), (0, ha as i32), (wa as i32, ha as i32 / 2), (-(wb as i32), 0), (wa as i32 / 2, -(hb as i32)), (0, 0)] {
                let mut cv = Canvas::new();
                cv.paste(0, 0, a);
                cv.paste(dx, dy, b);
                v.push(cv.render());
            }
        }
    }
    v
}

/// shapes with something attached (a circle, an arc or a box with a line on its left, right or below), each
/// drawn once, and two or three times at different positions of one page (equal shapes at different places)
pub fn repeated_tailed_family() -> Vec<String> {
    let cat = catalog();
    let mut singles: Vec<String> = vec![];
    for art in cat.iter().take(7) {
        let (w, h) = crate::enumr::extent(art);
        let mid = (h / 2) as i32;
        for side in 0..3 {
            let mut cv = Canvas::new();
            match side {
                0 => {
                    cv.paste(0, 0, art);
                    cv.text(w as i32, mid, "---");
                }
                1 => {
                    cv.paste(3, 0, art);
                    cv.text(0, mid, "---");
                }
                _ => {
                    cv.paste(0, 0, art);
                    cv.put(w as i32 / 2, h as i32, '|');
                    cv.put(w as i32 / 2, h as i32 + 1, '|');
                }
            }
            singles.push(cv.render());
        }
    }
    singles.push("+--+\n|  |---\n+--+".to_string());
    singles.push(" .-\n(\n `---".to_string());
    let mut v = vec![];
    for d in &singles {
        let (w, h) = crate::enumr::extent(d);
        let (w, h) = (w as i32, h as i32);
        v.push(d.clone());
        for (dx, dy) in [(w + 2, 0), (0, h + 1), (w + 3, h + 2), (w + 1, 1), (1, h + 1)] {
            let mut cv = Canvas::new();
            cv.paste(0, 0, d);
            cv.paste(dx, dy, d);
            v.push(cv.render());
        }
        let mut cv = Canvas::new();
        cv.paste(0, 0, d);
        cv.paste(w + 2, 1, d);
        cv.paste(2 * w + 4, 2, d);
        v.push(cv.render());
    }
    v
}

/// rows of 2..3 copies of one small catalogue circle (or two different ones), touching or one column apart:
/// one span holding several circle drawings, of which only the first is recognised at the first attempt
pub fn circle_rows_family() -> Vec<String> {
    let cat = catalog();
    let mut v = vec![];
    for i in 0..cat.len().min(6) {
        for j in 0..cat.len().min(6) {
            if j != i && j > 1 {
                continue;
            }
            for n in 2..=3usize {
                for gap in 0..=1usize {
                    let mut cv = Canvas::new();
                    let mut x = 0i32;
                    for k in 0..n {
                        let art = if k % 2 == 0 { &cat[i] } else { &cat[j] };
                        cv.paste(x, 0, art);
                        x += crate::enumr::extent(art).0 as i32 + gap as i32;
                    }
                    v.push(cv.render());
                }
            }
        }
    }
    v.sort();
    v.dedup();
    v
}

/// every catalogue circle with one of its cells blanked (yields three-quarter, half and quarter arcs with remains)
pub fn circle_defect_family(max_width: usize) -> Vec<String> {
    let mut v = vec![];
    for art in catalog() {
        let (w, _h) = crate::enumr::extent(&art);
        if w > max_width {
            continue;
        }
        let g: Vec<Vec<char>> = art.split('\n').map(|l| l.chars().collect()).collect();
        for r in 0..g.len() {
            for c in 0..g[r].len() {
                if g[r][c] == ' ' {
                    continue;
                }
                let mut h = g.clone();
                h[r][c] = ' ';
                v.push(h.iter().map(|r| r.iter().collect::<String>()).collect::<Vec<_>>().join("\n"));
            }
        }
    }
    v
}

/// the four quadrants and four halves of every catalogue circle from the fourth on (quarter and half arcs of every size)
pub fn circle_parts_family() -> Vec<String> {
    let mut v = vec![];
    for art in catalog().into_iter().skip(3) {
        let (w, h) = crate::enumr::extent(&art);
        let rows: Vec<Vec<char>> = art
            .split('\n')
            .map(|l| {
                let mut r: Vec<char> = l.chars().collect();
                while r.len() < w {
                    r.push(' ');
                }
                r
            })
            .collect();
        let part = |keep: &dyn Fn(usize, usize) -> bool| -> String {
            rows.iter()
                .enumerate()
                .map(|(r, row)| row.iter().enumerate().map(|(c, ch)| if keep(c, r) { *ch } else { ' ' }).collect::<String>().trim_end().to_string())
                .collect::<Vec<_>>()
                .join("\n")
        };
        let (mx, my) = (w / 2, h / 2);
        v.push(part(&|c, r| c < (w + 1) / 2 && r < (h + 1) / 2));
        v.push(part(&|c, r| c >= mx && r < (h + 1) / 2));
        v.push(part(&|c, r| c < (w + 1) / 2 && r >= my));
        v.push(part(&|c, r| c >= mx && r >= my));
        v.push(part(&|c, _r| c >= mx));
        v.push(part(&|c, _r| c < (w + 1) / 2));
        v.push(part(&|_c, r| r >= my));
        v.push(part(&|_c, r| r < (h + 1) / 2));
    }
    v
}
