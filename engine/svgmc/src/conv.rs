//! Calling the real library: settings, entry points, panic capture.
use std::cell::RefCell;
use std::panic::{catch_unwind, AssertUnwindSafe};

#[derive(Debug, Clone, PartialEq)]
pub struct Sett {
    pub scale: f32,
    pub backdrop: bool,
    pub styles: bool,
    pub defs: bool,
    pub font_size: usize,
    pub font_family: String,
    pub fill_color: String,
    pub background: String,
    pub stroke_color: String,
    pub stroke_width: f32,
}

impl Sett {
    /// the library's default settings
    pub fn default_() -> Sett {
        let d = svgbob::Settings::default();
        Sett {
            scale: d.scale,
            backdrop: d.include_backdrop,
            styles: d.include_styles,
            defs: d.include_defs,
            font_size: d.font_size,
            font_family: d.font_family,
            fill_color: d.fill_color,
            background: d.background,
            stroke_color: d.stroke_color,
            stroke_width: d.stroke_width,
        }
    }
    /// no style, defs or backdrop: geometry and text only
    pub fn bare() -> Sett {
        Sett {
            backdrop: false,
            styles: false,
            defs: false,
            ..Sett::default_()
        }
    }
    pub fn bare_scale(s: f32) -> Sett {
        Sett {
            scale: s,
            ..Sett::bare()
        }
    }
    pub fn to_lib(&self) -> svgbob::Settings {
        svgbob::Settings {
            font_size: self.font_size,
            font_family: self.font_family.clone(),
            fill_color: self.fill_color.clone(),
            background: self.background.clone(),
            stroke_color: self.stroke_color.clone(),
            stroke_width: self.stroke_width,
            scale: self.scale,
            include_backdrop: self.backdrop,
            include_styles: self.styles,
            include_defs: self.defs,
        }
    }
    pub fn to_json(&self) -> serde_json::Value {
        serde_json::json!({
            "scale": self.scale, "backdrop": self.backdrop, "styles": self.styles, "defs": self.defs,
            "font_size": self.font_size, "font_family": self.font_family, "fill_color": self.fill_color,
            "background": self.background, "stroke_color": self.stroke_color, "stroke_width": self.stroke_width,
        })
    }
    pub fn from_json(v: &serde_json::Value) -> Sett {
        let d = Sett::default_();
        let s = |k: &str, dv: &str| v.get(k).and_then(|x| x.as_str()).unwrap_or(dv).to_string();
        Sett {
            scale: v.get("scale").and_then(|x| x.as_f64()).map(|x| x as f32).unwrap_or(d.scale),
            backdrop: v.get("backdrop").and_then(|x| x.as_bool()).unwrap_or(d.backdrop),
            styles: v.get("styles").and_then(|x| x.as_bool()).unwrap_or(d.styles),
            defs: v.get("defs").and_then(|x| x.as_bool()).unwrap_or(d.defs),
            font_size: v.get("font_size").and_then(|x| x.as_u64()).map(|x| x as usize).unwrap_or(d.font_size),
            font_family: s("font_family", &d.font_family),
            fill_color: s("fill_color", &d.fill_color),
            background: s("background", &d.background),
            stroke_color: s("stroke_color", &d.stroke_color),
            stroke_width: v
                .get("stroke_width")
                .and_then(|x| x.as_f64())
                .map(|x| x as f32)
                .unwrap_or(d.stroke_width),
        }
    }
}

#[derive(Debug, Clone, Copy, PartialEq)]
pub enum Entry {
    ToSvg,
    Pretty,
    Compressed,
    WithSettings,
    OverrideSize(f32, f32),
}

thread_local! {
    static LAST_PANIC: RefCell<String> = RefCell::new(String::new());
}

/// install a panic hook that records message and location instead of printing
pub fn install_quiet_panic_hook() {
    std::panic::set_hook(Box::new(|info| {
        let msg = if let Some(s) = info.payload().downcast_ref::<&str>() {
            s.to_string()
        } else if let Some(s) = info.payload().downcast_ref::<String>() {
            s.clone()
        } else {
            "<non-string panic payload>".to_string()
        };
        let loc = info
            .location()
            .map(|l| format!("{}:{}", l.file(), l.line()))
            .unwrap_or_default();
        LAST_PANIC.with(|p| *p.borrow_mut() = format!("{} at {}", msg, loc));
    }));
}

pub fn last_panic() -> String {
    LAST_PANIC.with(|p| p.borrow().clone())
}

thread_local! {
    /// one input buffer per thread, refilled for every conversion: consecutive inputs of the same byte length
    /// sit at the same address, as they do for a caller that reads into a reused String (a library that
    /// remembers anything by the address of its input is wrong for such a caller)
    static INPUT_BUF: std::cell::RefCell<String> = std::cell::RefCell::new(String::with_capacity(1 << 16));
}

/// run one library entry point; Err carries the panic message
pub fn convert(input: &str, s: &Sett, e: Entry) -> Result<String, String> {
    // take the buffer out of the cell for the duration of the call (convert is re-entered by no one, but a
    // panic must not leave the cell borrowed)
    let mut buf = INPUT_BUF.with(|b| std::mem::take(&mut *b.borrow_mut()));
    buf.clear();
    buf.push_str(input);
    let r = convert_in(&buf, s, e);
    INPUT_BUF.with(|b| *b.borrow_mut() = buf);
    r
}

fn convert_in(input: &str, s: &Sett, e: Entry) -> Result<String, String> {
    let r = catch_unwind(AssertUnwindSafe(|| match e {
        Entry::ToSvg => svgbob::to_svg(input),
        Entry::Pretty => svgbob::to_svg_string_pretty(input),
        Entry::Compressed => svgbob::to_svg_string_compressed(input),
        Entry::WithSettings => svgbob::to_svg_with_settings(input, &s.to_lib()),
        Entry::OverrideSize(w, h) => svgbob::to_svg_with_override_size(input, &s.to_lib(), w, h),
    }));
    r.map_err(|_| last_panic())
}
