//! Enumerators shared by the checks.  Each enumerates a finite space
//! completely, in a fixed order (simplest first).

/// all strings over `alpha` of length exactly `len`
pub fn strings_exact(alpha: &[char], len: usize, f: &mut dyn FnMut(&[char])) {
    let k = alpha.len();
    if k == 0 && len > 0 {
        return;
    }
    let mut idx = vec![0usize; len];
    let mut buf: Vec<char> = vec![alpha.first().copied().unwrap_or(' '); len];
    loop {
        f(&buf);
        // increment (last position fastest)
        let mut p = len;
        loop {
            if p == 0 {
                return;
            }
            p -= 1;
            idx[p] += 1;
            if idx[p] < k {
                buf[p] = alpha[idx[p]];
                break;
            }
            idx[p] = 0;
            buf[p] = alpha[0];
        }
    }
}

/// all strings over `alpha` of length 0..=max, shortest first
pub fn strings_upto(alpha: &[char], max: usize, f: &mut dyn FnMut(&[char])) {
    for l in 0..=max {
        strings_exact(alpha, l, f);
    }
}

pub fn pow(k: usize, n: usize) -> u64 {
    (k as u64).pow(n as u32)
}

/// all w x h grids over `alpha`; rows joined by '\n' (no trailing newline)
pub fn grids(alpha: &[char], w: usize, h: usize, f: &mut dyn FnMut(String)) {
    strings_exact(alpha, w * h, &mut |cells| f(grid_string(cells, w, h)));
}

/// the slice `slice` of `nslices` of all w x h grids: the grids whose index
/// (last cell fastest) is congruent to `slice` modulo `nslices`
pub fn grids_slice(alpha: &[char], w: usize, h: usize, slice: u64, nslices: u64, f: &mut dyn FnMut(String)) {
    let k = alpha.len() as u64;
    let total = k.pow((w * h) as u32);
    let mut i = slice;
    let mut cells = vec![' '; w * h];
    while i < total {
        let mut v = i;
        for p in (0..w * h).rev() {
            cells[p] = alpha[(v % k) as usize];
            v /= k;
        }
        f(grid_string(&cells, w, h));
        i += nslices;
    }
}

pub fn grid_string(cells: &[char], w: usize, h: usize) -> String {
    let mut s = String::with_capacity((w + 1) * h);
    for r in 0..h {
        if r > 0 {
            s.push('\n');
        }
        for c in 0..w {
            s.push(cells[r * w + c]);
        }
    }
    s
}

/// all w x h grids with at most `k` non-blank cells drawn from `alpha`
/// (alpha must not contain the blank)
pub fn sparse(alpha: &[char], w: usize, h: usize, k: usize, f: &mut dyn FnMut(String)) {
    let n = w * h;
    let mut cells = vec![' '; n];
    fn rec(
        alpha: &[char],
        cells: &mut Vec<char>,
        start: usize,
        left: usize,
        w: usize,
        h: usize,
        f: &mut dyn FnMut(String),
    ) {
        f(grid_string(cells, w, h));
        if left == 0 {
            return;
        }
        for p in start..cells.len() {
            for &c in alpha {
                cells[p] = c;
                rec(alpha, cells, p + 1, left - 1, w, h, f);
            }
            cells[p] = ' ';
        }
    }
    rec(alpha, &mut cells, 0, k, w, h, f);
}

/// a centre character from `centre` in the middle of a 3x3 window plus
/// exactly `others` further characters from `alpha` at the other positions
pub fn nbhd(centre: &[char], alpha: &[char], others: usize, f: &mut dyn FnMut(String)) {
    let pos: Vec<usize> = (0..9).filter(|p| *p != 4).collect();
    for &c in centre {
        let mut cells = vec![' '; 9];
        cells[4] = c;
        fn rec(
            pos: &[usize],
            alpha: &[char],
            cells: &mut Vec<char>,
            start: usize,
            left: usize,
            f: &mut dyn FnMut(String),
        ) {
            if left == 0 {
                f(grid_string(cells, 3, 3));
                return;
            }
            for i in start..pos.len() {
                for &c in alpha {
                    cells[pos[i]] = c;
                    rec(pos, alpha, cells, i + 1, left - 1, f);
                }
                cells[pos[i]] = ' ';
            }
        }
        rec(&pos, alpha, &mut cells, 0, others, f);
    }
}

/// shift a diagram by k columns and n rows
pub fn shift(s: &str, k: usize, n: usize) -> String {
    let pad = " ".repeat(k);
    let mut out = String::new();
    for _ in 0..n {
        out.push('\n');
    }
    let mut first = true;
    for line in s.split('\n') {
        if !first {
            out.push('\n');
        }
        first = false;
        if !line.is_empty() {
            out.push_str(&pad);
            out.push_str(line);
        }
    }
    out
}

/// display columns of a string the way svgbob's StringBuffer assigns them
pub fn display_cols(s: &str) -> usize {
    use unicode_width::UnicodeWidthChar;
    s.chars().map(|c| c.width().map(|w| w.max(1)).unwrap_or(1)).sum()
}

/// column count per char as StringBuffer does: the char itself plus (width-1) fillers
pub fn char_cols(c: char) -> usize {
    use unicode_width::UnicodeWidthChar;
    match c.width() {
        Some(w) if w > 1 => w,
        _ => 1,
    }
}

/// width and height (in cells) of a diagram
pub fn extent(s: &str) -> (usize, usize) {
    let mut w = 0;
    let mut h = 0;
    for l in s.split('\n') {
        h += 1;
        w = w.max(l.chars().map(char_cols).sum());
    }
    (w, h)
}

/// place b to the right of a with `gap` blank columns
pub fn beside(a: &str, b: &str, gap: usize) -> (String, usize) {
    let (wa, _) = extent(a);
    let la: Vec<&str> = a.split('\n').collect();
    let lb: Vec<&str> = b.split('\n').collect();
    let n = la.len().max(lb.len());
    let off = wa + gap;
    let mut out = String::new();
    for i in 0..n {
        if i > 0 {
            out.push('\n');
        }
        let l = la.get(i).copied().unwrap_or("");
        out.push_str(l);
        if let Some(r) = lb.get(i) {
            if !r.trim_end().is_empty() {
                let cols: usize = l.chars().map(char_cols).sum();
                out.push_str(&" ".repeat(off - cols));
                out.push_str(r);
            }
        }
    }
    (out, off)
}

/// place b below a with `gap` blank rows
pub fn below(a: &str, b: &str, gap: usize) -> (String, usize) {
    let (_, ha) = extent(a);
    let mut out = a.to_string();
    for _ in 0..=gap {
        out.push('\n');
    }
    out.push_str(b);
    (out, ha + gap)
}

#[cfg(test)]
mod tests {
    use super::*;
    #[test]
    fn counts() {
        let mut n = 0;
        grids(&[' ', '-', '|', '+'], 2, 2, &mut |_| n += 1);
        assert_eq!(n, 256);
        let mut n = 0;
        sparse(&['a', 'b'], 2, 2, 2, &mut |_| n += 1);
        // 1 + 4*2 + C(4,2)*4
        assert_eq!(n, 1 + 8 + 24);
        let mut n = 0;
        grids_slice(&[' ', '-'], 2, 2, 1, 4, &mut |_| n += 1);
        assert_eq!(n, 4);
        let mut n = 0;
        nbhd(&['a'], &['x', 'y'], 1, &mut |_| n += 1);
        assert_eq!(n, 16);
        assert_eq!(shift("ab\n\ncd", 2, 1), "\n  ab\n\n  cd");
    }
}
