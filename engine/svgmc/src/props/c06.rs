//! C06 — moving a drawing only translates its rendering.
use crate::conv::Sett;
use crate::enumr;
use crate::runner::{Case, Cx, Prop, Scope, Tier};
use crate::shapes;
use crate::svg::{self, Doc};

pub struct C06;

const KS: [usize; 21] = [0, 1, 2, 3, 5, 8, 13, 31, 32, 33, 63, 64, 65, 127, 128, 129, 255, 256, 257, 399, 400];
const NS: [usize; 14] = [0, 1, 2, 3, 7, 8, 9, 63, 64, 65, 127, 128, 199, 200];

fn offsets(kind: i64) -> Vec<(usize, usize)> {
    match kind {
        // three far-apart offsets
        0 => vec![(1, 1), (33, 9), (400, 200)],
        // 24 offsets
        1 => {
            let mut v = vec![];
            for k in [0usize, 1, 3, 33, 129, 400] {
                for n in [0usize, 1, 8, 65] {
                    if (k, n) != (0, 0) {
                        v.push((k, n));
                    }
                }
            }
            v.push((257, 200));
            v
        }
        // the full 294-offset product
        _ => {
            let mut v = vec![];
            for k in KS {
                for n in NS {
                    if (k, n) != (0, 0) {
                        v.push((k, n));
                    }
                }
            }
            v
        }
    }
}

/// compare the rendering of `s` with that of `s` shifted by (k, n)
pub fn compare_shift(cx: &mut Cx, base: &Doc, s: &str, k: usize, n: usize, scale: f64) -> bool {
    let shifted = enumr::shift(s, k, n);
    let d2 = match cx.conv_doc(&shifted, &Sett::bare_scale(scale as f32)) {
        Some(d) => d,
        None => return false,
    };
    cx.compared();
    let dx = k as f64 * scale;
    let dy = n as f64 * 2.0 * scale;
    let tol = 1e-3 * scale;
    let moved: Vec<svg::El> = d2.elems.iter().map(|e| e.translated(-dx, -dy)).collect();
    let (only_base, only_shift) = svg::multiset_diff(&base.elems, &moved, tol);
    let mut ok = true;
    if !only_base.is_empty() || !only_shift.is_empty() {
        ok = false;
        cx.fail(
            "elements",
            format!(
                "shift by ({},{}) changed the rendering: only at origin [{}]; only when shifted (coordinates moved back) [{}]",
                k,
                n,
                only_base.iter().take(6).map(|e| e.brief()).collect::<Vec<_>>().join(" ; "),
                only_shift.iter().take(6).map(|e| e.brief()).collect::<Vec<_>>().join(" ; ")
            ),
        );
    }
    let empty = s.chars().all(|c| c.is_whitespace());
    let (ew, eh) = if empty { (base.w, base.h) } else { (base.w + dx, base.h + dy) };
    if (d2.w - ew).abs() > tol || (d2.h - eh).abs() > tol {
        ok = false;
        let detail = format!("shift by ({},{}): canvas {}x{} expected {}x{} (origin canvas {}x{})", k, n, d2.w, d2.h, ew, eh, base.w, base.h);
        // known finding: quoted text is not part of the canvas computation, so a drawing that
        // consists of quoted text only keeps the minimal canvas wherever it is
        let (blanked, quoted) = crate::props::c15::blank_and_texts(s);
        if !quoted.is_empty() && blanked.chars().all(|c| c.is_whitespace()) && !s.contains('\\') {
            cx.fail_kf("canvas", detail, "c06-quoted-only-canvas-does-not-move");
        } else {
            cx.fail("canvas", detail);
        }
    }
    // grouping must be preserved as well: same number of groups
    if d2.groups != base.groups {
        ok = false;
        cx.fail("groups", format!("shift by ({},{}): {} groups became {}", k, n, base.groups, d2.groups));
    }
    ok
}

impl Prop for C06 {
    fn id(&self) -> &'static str {
        "C06"
    }
    fn rule(&self) -> &'static str {
        "every drawing of the listed scopes is converted at the origin and at every offset of the scope's offset set; \
         each (drawing, offset) pair is compared element by element after subtracting the shift. \
         distinct_nontrivial counts distinct output skeletons (multiset of element kinds and classes) with at least one element"
    }
    fn assumptions(&self) -> Vec<String> {
        vec![
            "drawings are legend-free; a shift prefixes every non-empty line with k spaces and the text with n empty lines".into(),
            "numeric tolerance 1e-3 cell".into(),
        ]
    }
    fn scopes(&self, tier: Tier, _seed: u64) -> Vec<Scope> {
        let mut v = vec![];
        let fam_off = if tier == Tier::Quick { 1 } else { 2 };
        v.push(Scope::new(
            "families",
            "every member of the parametric shape families (boxes of all styles, the 22 catalogue circles, runs, arrows, bullets, rounded outlines, text) x offsets",
            move |f| {
                for (_n, d) in shapes::family_samples(40) {
                    f(Case::sn(d, vec![fam_off]));
                }
            },
        ));
        v.push(Scope::new(
            "examples",
            "the bundled example diagrams (legend removed) x 3 offsets",
            move |f| {
                for (_n, d) in shapes::bundled_examples() {
                    let d = match d.find("# Legend:") {
                        Some(p) => d[..p].to_string(),
                        None => d,
                    };
                    if d.len() < 6000 || tier == Tier::Thorough {
                        f(Case::sn(d, vec![0]));
                    }
                }
            },
        ));
        v.push(Scope::new(
            "circle-defects",
            "every catalogue circle with one of its cells blanked or replaced by '-' (three-quarter and half arcs with attached remains) x 3 offsets",
            move |f| {
                for art in shapes::catalog() {
                    let g: Vec<Vec<char>> = art.split('\n').map(|l| l.chars().collect()).collect();
                    for r in 0..g.len() {
                        for c in 0..g[r].len() {
                            if g[r][c] == ' ' {
                                continue;
                            }
                            for rep in [' ', '-'] {
                                if rep == g[r][c] {
                                    continue;
                                }
                                let mut h = g.clone();
                                h[r][c] = rep;
                                f(Case::sn(h.iter().map(|r| r.iter().collect::<String>()).collect::<Vec<_>>().join("\n"), vec![0]));
                            }
                        }
                    }
                }
            },
        ));
        v.push(Scope::new(
            "circle-parts",
            "the quadrants and halves of every catalogue circle (quarter and half arcs of every size) x 3 offsets",
            move |f| {
                for d in shapes::circle_parts_family() {
                    f(Case::sn(d, vec![0]));
                }
            },
        ));
        v.push(Scope::new(
            "divided-boxes",
            "boxes divided by a T-junction, +---+---+ with both widths 1..20 (interior points of long lines) x 24 offsets",
            move |f| {
                for w1 in 1..=20usize {
                    for w2 in 1..=20usize {
                        let top = format!("+{}+{}+", "-".repeat(w1), "-".repeat(w2));
                        let mid = format!("|{}|{}|", " ".repeat(w1), " ".repeat(w2));
                        f(Case::sn(format!("{}\n{}\n{}", top, mid, top), vec![1]));
                    }
                }
            },
        ));
        v.push(Scope::new(
            "fractional-scales",
            "shape families at scales 2.4, 7.2 and 10.4 (a cell is not a whole number of units) x 3 offsets",
            move |f| {
                for (i, (_n, d)) in shapes::family_samples(12).into_iter().enumerate() {
                    if i % 6 == 0 {
                        for sc in [24i64, 72, 104] {
                            f(Case::sn(d.clone(), vec![0, 0, sc]));
                        }
                    }
                }
            },
        ));
        v.push(Scope::new(
            "quoted-only",
            "inputs whose only content is quoted text (the canvas must still move with the drawing)",
            |f| {
                for d in ["\"hello\"", "\"a\" \"b\"", " \"一二\"", "\"x\"\n\"y\""] {
                    f(Case::sn(d, vec![0]));
                }
            },
        ));
        v.push(Scope::new(
            "blank-kinds",
            "drawings whose blanks are a tab, a no-break space, an ideographic space (two columns wide) or an em space, as indentation and between shapes x 24 offsets (a blank is one blank wherever it stands)",
            |f| {
                for b in ['\t', '\u{a0}', '\u{3000}', '\u{2003}'] {
                    for d in [
                        format!("{b}+--+\n{b}|  |\n{b}+--+"),
                        format!("+-+{b}+-+\n| |{b}| |\n+-+{b}+-+"),
                        format!("a{b}b"),
                        format!("-{b}->"),
                        format!("{b}{b}*--o\n{b}(_)"),
                        format!("ab{b}{b}cd\n  {b}--"),
                    ] {
                        f(Case::sn(d, vec![1]));
                    }
                }
            },
        ));
        let pair_off = if tier == Tier::Quick { 0 } else { 1 };
        v.push(Scope::new(
            "nbhd2",
            "every drawing character (ASCII table + unicode table) with one other drawing character at each of the 8 neighbouring positions x offsets",
            move |f| {
                let mut a = shapes::sigma_ascii();
                a.extend(shapes::sigma_uni());
                enumr::nbhd(&a, &a, 1, &mut |s| f(Case::sn(s, vec![pair_off])));
            },
        ));
        {
            let ls: Vec<usize> = if tier == Tier::Quick { vec![60, 90, 120] } else { vec![60, 75, 90, 105, 120] };
            let stp = if tier == Tier::Quick { 3 } else { 1 };
            v.push(Scope::new(
                "long-diagonal-junctions",
                "diagonals of 60, 90, 120 (thorough: also 75, 105) cells in both directions with a two-cell horizontal stub attached at every third (thorough: every) row, on either side x 24 offsets",
                move |f| {
                    for &l in &ls {
                        for dir in [2u8, 3] {
                            for r in (1..l - 1).step_by(stp) {
                                for side in 0..2 {
                                    let mut cv = shapes::Canvas::new();
                                    for i in 0..l as i32 {
                                        let x = if dir == 2 { i } else { l as i32 - 1 - i };
                                        cv.put(x + 3, i, if dir == 2 { '\\' } else { '/' });
                                        if i as usize == r {
                                            if side == 0 {
                                                cv.put(x + 4, i, '-');
                                                cv.put(x + 5, i, '-');
                                            } else {
                                                cv.put(x + 2, i, '-');
                                                cv.put(x + 1, i, '-');
                                            }
                                        }
                                    }
                                    f(Case::sn(cv.render(), vec![1]));
                                }
                            }
                        }
                    }
                },
            ));
        }
        if tier == Tier::Thorough {
            v.push(Scope::new(
                "sparse3",
                "all 3x3 grids with at most 3 non-blank cells over the ASCII drawing alphabet x 3 offsets",
                move |f| {
                    let a = shapes::sigma_ascii();
                    enumr::sparse(&a, 3, 3, 3, &mut |s| f(Case::sn(s, vec![0])));
                },
            ));
            v.push(Scope::new(
                "float-full",
                "float-geometry shapes (circles, arcs, long diagonals, rounded outlines) x one complete row k=0..400 of the 401x201 offset rectangle per case",
                move |f| {
                    let mut ds: Vec<String> = shapes::catalog();
                    for l in [8usize, 9, 15, 23, 40] {
                        ds.push(shapes::run('/', l, 3));
                        ds.push(shapes::run('\\', l, 2));
                    }
                    for (n, d) in shapes::family_samples(12) {
                        if n.starts_with("outline") || n.starts_with("box:round") {
                            ds.push(d);
                        }
                    }
                    for d in ds {
                        for n in (0..=200).step_by(8) {
                            f(Case::sn(d.clone(), vec![3, n]));
                        }
                    }
                },
            ));
        }
        v
    }
    fn shrinkable(&self, scope: &str) -> bool {
        scope == "examples"
    }
    fn check(&self, _scope: &str, case: &Case, cx: &mut Cx) {
        let scale = case.n.get(2).map(|s| *s as f64 / 10.0).unwrap_or(8.0);
        let base = match cx.conv_doc(&case.s, &Sett::bare_scale(scale as f32)) {
            Some(d) => d,
            None => return,
        };
        if !base.elems.is_empty() {
            cx.outcome(&base.skeleton());
        }
        let kind = case.n.first().copied().unwrap_or(0);
        if kind == 3 {
            let n = case.n[1] as usize;
            for k in 0..=400usize {
                if (k, n) == (0, 0) {
                    continue;
                }
                if !compare_shift(cx, &base, &case.s, k, n, scale) {
                    return;
                }
            }
            return;
        }
        for (k, n) in offsets(kind) {
            if !compare_shift(cx, &base, &case.s, k, n, scale) {
                return;
            }
        }
    }
}
