//! C13 — every catalogued circle drawing becomes exactly one matching circle.
use crate::conv::Sett;
use crate::enumr;
use crate::runner::{Case, Cx, Prop, Scope, Tier};
use crate::shapes;
use crate::svg::{self, Kind};

pub struct C13;

const BOX: &str = "+--+\n|ab|\n+--+";

impl C13 {
    fn judge_with_context(&self, cx: &mut Cx, input: &str, context_only: &str, desc: &str, i: usize) {
        let d = match cx.conv_doc(input, &Sett::bare()) {
            Some(d) => d,
            None => return,
        };
        let od = match cx.conv_doc(context_only, &Sett::bare()) {
            Some(d) => d,
            None => return,
        };
        cx.compared();
        let circles: Vec<_> = d.of(Kind::Circle).collect();
        let others: Vec<svg::El> = d.elems.iter().filter(|e| e.kind != Kind::Circle).cloned().collect();
        if circles.len() != 1 {
            cx.fail("not-one-circle", format!("{}: {} circle elements; output [{}]\n{}", desc, circles.len(), d.elems.iter().take(8).map(|e| e.brief()).collect::<Vec<_>>().join(" ; "), input));
            return;
        }
        let (a, b) = svg::multiset_diff(&od.elems, &others, 1e-6);
        if !a.is_empty() || !b.is_empty() {
            cx.fail("context-changed", format!("{}: the unrelated content renders differently next to the circle: missing [{}] extra [{}]\n{}", desc,
                a.iter().take(4).map(|e| e.brief()).collect::<Vec<_>>().join(" ; "), b.iter().take(4).map(|e| e.brief()).collect::<Vec<_>>().join(" ; "), input));
            return;
        }
        cx.outcome(&(i, desc.len() % 7, "ctx"));
    }

    fn check_left_label(&self, cx: &mut Cx, art: &str, ox: usize, oy: usize, ascii: bool, i: usize) {
        let label = if ascii { "ab" } else { "一二" };
        let lw = enumr::display_cols(label);
        let (_w, h) = enumr::extent(art);
        let mid = h / 2;
        let mut rows: Vec<String> = enumr::shift(art, ox + lw + 2, oy).split('\n').map(|s| s.to_string()).collect();
        let mut ctx_rows: Vec<String> = rows.iter().map(|_| String::new()).collect();
        let r = oy + mid;
        let line = rows[r].clone();
        let rest: String = line.chars().skip(lw + 0).collect();
        rows[r] = format!("{}{}", label, &rest[lw.min(rest.len())..].to_string());
        // simpler and exact: rebuild the row as label + blanks + the drawing's part
        let art_row: String = art.split('\n').nth(mid).unwrap_or("").to_string();
        rows[r] = format!("{}{}{}", label, " ".repeat(ox + 2), art_row);
        ctx_rows[r] = label.to_string();
        let desc = format!("catalogue circle #{} at ({},{}) with the label {:?} two columns to its left", i, ox + lw + 2, oy, label);
        self.judge_with_context(cx, &rows.join("\n"), &ctx_rows.join("\n"), &desc, i);
    }

    fn check_word_above(&self, cx: &mut Cx, art: &str, ox: usize, oy: usize, variant: usize, i: usize) {
        // the word "word" ends at column (first top-row cell + delta), delta in -3..=2, one or two blank rows above the drawing
        let delta = (variant % 6) as i64 - 3;
        let blank_rows = 1 + variant / 6;
        let first_top = art.split('\n').next().unwrap_or("").chars().take_while(|c| *c == ' ').count();
        let end_col = (ox + 5 + first_top) as i64 + delta;
        if end_col < 4 {
            return;
        }
        let start = (end_col - 4) as usize + 1;
        let mut rows: Vec<String> = vec![format!("{}word", " ".repeat(start))];
        for _ in 0..blank_rows {
            rows.push(String::new());
        }
        let n_above = rows.len();
        rows.extend(enumr::shift(art, ox + 5, 0).split('\n').map(|s| s.to_string()));
        let mut full: Vec<String> = vec![String::new(); oy];
        full.extend(rows);
        let mut ctx: Vec<String> = vec![String::new(); oy];
        ctx.push(format!("{}word", " ".repeat(start)));
        let _ = n_above;
        let desc = format!("catalogue circle #{} with a word ending {} columns from its first top cell, {} blank row(s) above it", i, delta, blank_rows);
        self.judge_with_context(cx, &full.join("\n"), &ctx.join("\n"), &desc, i);
    }
}

impl Prop for C13 {
    fn id(&self) -> &'static str {
        "C13"
    }
    fn rule(&self) -> &'static str {
        "the 22 documented circle drawings (fixed copy in /verif/catalog, compared with the live table) x offsets 0..8 x 0..6 plus three far corners (thorough: all 0..60 x 0..40) \
         x {alone, with a box two columns to the right, with a line of text two rows below, with an ASCII / double-width label to the left on its middle row, with a word above it ending at each of 6 columns around its first cell with 1 or 2 blank rows between, with a table of 20 one-letter entries to its right on each of its rows}: exactly one circle and nothing else for the drawing; cx-r / cx+r = the drawing's horizontal extent; \
         r = (n-1)/2 cells (n/2 when the left-most cell is a slash); every character cell intersects the annulus of half-width 1.25 cell widths; the unrelated content renders as it does alone. \
         distinct_nontrivial = distinct (catalogue entry, context) outcomes that produced a circle"
    }
    fn assumptions(&self) -> Vec<String> {
        vec!["the expected circle is computed from the drawing's cells only, never from svgbob's tables".into()]
    }
    fn scopes(&self, tier: Tier, _seed: u64) -> Vec<Scope> {
        let offs: Vec<(usize, usize)> = if tier == Tier::Quick {
            let mut v = vec![];
            for x in 0..=8 {
                for y in 0..=6 {
                    v.push((x, y));
                }
            }
            v.extend([(60, 40), (0, 40), (60, 0)]);
            v
        } else {
            let mut v = vec![];
            for x in 0..=60 {
                for y in 0..=40 {
                    v.push((x, y));
                }
            }
            v
        };
        vec![
            Scope::new("catalog-live", "the fixed copy of the catalogue equals the live table", |f| f(Case::s("catalog"))),
            Scope::new("placements", "catalogue entry x offset x context", move |f| {
                let n = shapes::catalog().len();
                for i in 0..n {
                    for &(x, y) in &offs {
                        for ctx in 0..(3 + 2 + 12 + 1) {
                            f(Case::sn("", vec![i as i64, x as i64, y as i64, ctx]));
                        }
                    }
                }
            }),
            Scope::new("scales", "catalogue entry x offsets (0,0), (3,2), (17,9) x scales 0.5, 1, 2.5, 3, 5, 7, 10, 20, 37.5: the same circle, scaled", |f| {
                let n = shapes::catalog().len();
                for i in 0..n {
                    for (x, y) in [(0i64, 0i64), (3, 2), (17, 9)] {
                        for sc in [50i64, 100, 250, 300, 500, 700, 1000, 2000, 3750] {
                            f(Case::sn("", vec![i as i64, x, y, 0, sc]));
                        }
                    }
                }
            }),
            Scope::new("decoys", "catalogue entry x look-alike made of the same characters in another layout (last row moved one column, first row moved one column, rows in reverse order, a row dropped) placed above the drawing with 1..2 blank rows, left aligned or 3 columns to the right; the look-alike and the drawing are also converted alone first, on the same thread", |f| {
                let n = shapes::catalog().len();
                for i in 0..n {
                    for kind in 0..5i64 {
                        for gap in 1..=2i64 {
                            for dx in [0i64, 3] {
                                f(Case::sn("decoy", vec![i as i64, kind, gap, dx]));
                            }
                        }
                    }
                }
            }),
        ]
    }
    fn check(&self, scope: &str, case: &Case, cx: &mut Cx) {
        let cat = shapes::catalog();
        if scope == "catalog-live" {
            cx.compared();
            let live = shapes::live_catalog();
            if cat.len() != 22 {
                cx.machinery.push(format!("the fixed catalogue copy has {} drawings, expected 22", cat.len()));
            }
            if live != cat {
                cx.tally("live-catalogue-differs-from-documented-copy");
            }
            cx.outcome(&"catalog");
            cx.outcome(&cat.len());
            return;
        }
        if scope == "decoys" {
            let (i, kind, gap, dx) = (case.n[0] as usize, case.n[1], case.n[2] as usize, case.n[3] as usize);
            let art = &cat[i];
            let mut rows: Vec<String> = art.split('\n').map(|r| r.to_string()).collect();
            let last = rows.len() - 1;
            match kind {
                0 => rows[last] = format!(" {}", rows[last]),
                1 => rows[0] = format!(" {}", rows[0]),
                2 => rows.reverse(),
                3 => {
                    if rows[0].starts_with(' ') {
                        rows[0] = rows[0][1..].to_string()
                    } else {
                        rows[last] = format!("  {}", rows[last])
                    }
                }
                _ => {
                    if rows.len() > 1 {
                        rows.remove(last);
                    } else {
                        rows[0] = rows[0].chars().rev().collect();
                    }
                }
            }
            let decoy = enumr::shift(&rows.join("\n"), 1, 0);
            if decoy.trim() == art.trim() {
                return;
            }
            // history on this thread: the look-alike first, then the drawing alone
            let dd = match cx.conv_doc(&decoy, &Sett::bare()) {
                Some(d) => d,
                None => return,
            };
            if dd.count(Kind::Circle) > 0 {
                cx.tally("decoy is itself recognised as a circle: skipped");
                return;
            }
            let alone = match cx.conv_doc(art, &Sett::bare()) {
                Some(d) => d,
                None => return,
            };
            cx.compared();
            if alone.count(Kind::Circle) != 1 || alone.elems.len() != 1 {
                cx.fail("not-one-circle", format!("catalogue circle #{} converted right after a look-alike ({:?}) on the same thread: [{}]", i, decoy,
                    alone.elems.iter().take(8).map(|e| e.brief()).collect::<Vec<_>>().join(" ; ")));
                return;
            }
            let (page, _off) = enumr::below(&decoy, &enumr::shift(art, dx, 0), gap);
            let desc = format!("catalogue circle #{} below a look-alike made of the same characters (variant {}, {} blank rows, {} columns right)", i, kind, gap, dx);
            self.judge_with_context(cx, &page, &decoy, &desc, i);
            return;
        }
        let (i, ox, oy, ctx) = (case.n[0] as usize, case.n[1] as usize, case.n[2] as usize, case.n[3]);
        let sc = case.n.get(4).map(|v| *v as f64 / 100.0).unwrap_or(8.0);
        let (k, tol) = (8.0 / sc, if case.n.len() > 4 { 1e-3 } else { 1e-6 });
        let art = &cat[i];
        let (w, h) = enumr::extent(art);
        // cells of the drawing
        let mut cells: Vec<(usize, usize, char)> = vec![];
        for (r, l) in art.split('\n').enumerate() {
            for (c, ch) in l.chars().enumerate() {
                if ch != ' ' {
                    cells.push((c, r, ch));
                }
            }
        }
        let c0 = cells.iter().map(|c| c.0).min().unwrap();
        let c1 = cells.iter().map(|c| c.0).max().unwrap();
        let n = (c1 - c0 + 1) as f64;
        let slash = cells.iter().filter(|c| c.0 == c0).any(|c| c.2 == '/' || c.2 == '\\');
        let placed = enumr::shift(art, ox, oy);
        let (input, other, odx, ody): (String, Option<&str>, usize, usize) = match ctx {
            1 => {
                let (j, off) = enumr::beside(&placed, BOX, 2);
                (j, Some(BOX), off, 0)
            }
            2 => {
                let (j, off) = enumr::below(&placed, "some text", 1);
                (j, Some("some text"), 0, off)
            }
            3 | 4 => {
                // a double-width label to the left of the drawing, on its middle row, two columns away
                return self.check_left_label(cx, art, ox, oy, ctx == 4, i);
            }
            17 => {
                // a table of 20 one-letter entries to the right of the drawing on each of its rows
                let (w, _h) = enumr::extent(art);
                let mut rows: Vec<String> = vec![String::new(); oy];
                let mut ctx_rows: Vec<String> = vec![String::new(); oy];
                for (r, l) in art.split('\n').enumerate() {
                    let n = l.chars().count();
                    let letters: String = (0..20).map(|k| format!("{} ", char::from(b'a' + ((r * 7 + k) % 26) as u8))).collect();
                    rows.push(format!("{}{}{}   {}", " ".repeat(ox), l, " ".repeat(w - n), letters.trim_end()));
                    ctx_rows.push(format!("{}{}   {}", " ".repeat(ox), " ".repeat(w), letters.trim_end()));
                }
                let desc = format!("catalogue circle #{} at ({},{}) with a table of 20 one-letter entries to its right on each of its rows", i, ox, oy);
                return self.judge_with_context(cx, &rows.join("\n"), &ctx_rows.join("\n"), &desc, i);
            }
            5..=16 => {
                // a word above the drawing (one or two blank rows between), ending at every column around the drawing's first top-row cell
                return self.check_word_above(cx, art, ox, oy, (ctx - 5) as usize, i);
            }
            _ => (placed, None, 0, 0),
        };
        let _ = (w, h);
        let mut d = match cx.conv_doc(&input, &Sett::bare_scale(sc as f32)) {
            Some(d) => d,
            None => return,
        };
        if k != 1.0 {
            // bring the rendering back to the default scale: every length must have been multiplied by scale/8
            d.elems = d.elems.iter().map(|e| e.scaled(k)).collect();
        }
        cx.compared();
        let circles: Vec<_> = d.of(Kind::Circle).collect();
        let others: Vec<svg::El> = d.elems.iter().filter(|e| e.kind != Kind::Circle).cloned().collect();
        let desc = format!("catalogue circle #{} ({} cells wide) at ({},{}) context {} scale {}", i, n, ox, oy, ctx, sc);
        if circles.len() != 1 {
            cx.fail(
                "not-one-circle",
                format!("{}: {} circle elements; output [{}]", desc, circles.len(), d.elems.iter().take(8).map(|e| e.brief()).collect::<Vec<_>>().join(" ; ")),
            );
            return;
        }
        // the rest must be exactly the unrelated content as rendered alone
        match other {
            None => {
                if !others.is_empty() || d.groups != 0 {
                    cx.fail("circle-and-more", format!("{}: extra elements [{}]", desc, others.iter().take(6).map(|e| e.brief()).collect::<Vec<_>>().join(" ; ")));
                    return;
                }
            }
            Some(o) => {
                let od = match cx.conv_doc(o, &Sett::bare()) {
                    Some(d) => d,
                    None => return,
                };
                let want: Vec<svg::El> = od.elems.iter().map(|e| e.translated(8.0 * odx as f64, 16.0 * ody as f64)).collect();
                let (a, b) = svg::multiset_diff(&want, &others, 1e-6);
                if !a.is_empty() || !b.is_empty() {
                    cx.fail("context-changed", format!("{}: the unrelated content renders differently next to the circle: missing [{}] extra [{}]", desc,
                        a.iter().take(4).map(|e| e.brief()).collect::<Vec<_>>().join(" ; "), b.iter().take(4).map(|e| e.brief()).collect::<Vec<_>>().join(" ; ")));
                    return;
                }
            }
        }
        let c = circles[0];
        let (ccx, ccy, r) = (c.xs[0], c.ys[0], c.lens[0]);
        let left = 8.0 * (ox + c0) as f64;
        let (want_r, want_cx) = if slash { (4.0 * n, left + 4.0 * n) } else { (4.0 * (n - 1.0), left + 4.0 + 4.0 * (n - 1.0)) };
        if (r - want_r).abs() > tol || (ccx - want_cx).abs() > tol {
            cx.fail(
                "circle-extent",
                format!("{}: circle cx={} r={} but the drawing's extent gives cx={} r={}", desc, ccx, r, want_cx, want_r),
            );
            return;
        }
        let half = 1.25 * 8.0;
        for (cc, cr, ch) in &cells {
            let x0 = 8.0 * (ox + cc) as f64;
            let y0 = 16.0 * (oy + cr) as f64;
            let (x1, y1) = (x0 + 8.0, y0 + 16.0);
            let dx = if ccx < x0 { x0 - ccx } else if ccx > x1 { ccx - x1 } else { 0.0 };
            let dy = if ccy < y0 { y0 - ccy } else if ccy > y1 { ccy - y1 } else { 0.0 };
            let dmin = (dx * dx + dy * dy).sqrt();
            let fx = (ccx - x0).abs().max((ccx - x1).abs());
            let fy = (ccy - y0).abs().max((ccy - y1).abs());
            let dmax = (fx * fx + fy * fy).sqrt();
            if dmin > r + half || dmax < r - half {
                cx.fail(
                    "circle-off-drawing",
                    format!("{}: character {:?} at cell ({},{}) is farther than 1.25 cell widths from the circle cx={} cy={} r={}", desc, ch, ox + cc, oy + cr, ccx, ccy, r),
                );
                return;
            }
        }
        if !c.has_class("nofill") || c.has_class("filled") {
            cx.fail("circle-class", format!("{}: circle classes {:?}", desc, c.cls));
            return;
        }
        cx.outcome(&(i, ctx, (sc * 100.0) as i64));
    }
}
