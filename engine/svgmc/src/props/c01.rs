//! C01 — conversion is total: any text yields an SVG, never a panic or a hang.
use crate::conv::{self, Entry, Sett};
use crate::enumr;
use crate::runner::{Case, Cx, Prop, Scope, Tier};
use crate::shapes;
use std::time::Instant;

pub struct C01;

fn corpus() -> Vec<String> {
    let mut v: Vec<String> = shapes::family_samples(10).into_iter().step_by(5).map(|x| x.1).collect();
    for d in [
        "", " ", "\n", "a", "\"", "\"\"", "\"a", "{", "}", "{}", "{a", "# Legend:", "# Legend:\n", "# Legend:\na = {", "# Legend:\n= {}", "一", "\u{0}", "\u{301}", "\u{10FFFF}",
        "+--+\n|{a}|\n+--+\n# Legend:\na = {fill:red}", "*-->o<--O",
        " .-.  text\n(   )\n `-'", "  .--.  +--+\n ( ab ) |  |\n  `--'  +--+", "   _\n .' '.   -->\n(     )\n `._.'", "\\|/\n-+-\n/|\\", "(_)", ".-.\n'-'", "()()\n()()",
    ] {
        v.push(d.to_string());
    }
    v
}

fn growth_input(family: i64, n: usize) -> String {
    match family {
        // dense grid n x n/2 over the ASCII drawing alphabet (deterministic pattern)
        0 => {
            let a = shapes::sigma_ascii();
            let mut s = String::new();
            let mut x: u64 = 12345;
            for r in 0..(n / 2).max(1) {
                if r > 0 {
                    s.push('\n');
                }
                for _ in 0..n {
                    x = x.wrapping_mul(6364136223846793005).wrapping_add(1442695040888963407);
                    s.push(a[((x >> 33) as usize) % a.len()]);
                }
            }
            s
        }
        1 => shapes::run('-', n, 0),
        2 => shapes::run('|', n, 1),
        3 => shapes::run('/', n, 3),
        4 => shapes::run('\\', n, 2),
        // a staircase: maximises merge passes
        5 => (0..n).map(|i| format!("{}+-", "  ".repeat(i))).collect::<Vec<_>>().join("\n"),
        // n nested boxes
        6 => {
            let mut cv = shapes::Canvas::new();
            for k in 0..n {
                let w = 2 * (n - k) + 1;
                let h = 2 * (n - k) - 1;
                let rows = shapes::box_rows(&shapes::SHARP, w, h, None, &[]);
                for (r, l) in rows.iter().enumerate() {
                    cv.text(k as i32, (k + r) as i32, l);
                }
            }
            cv.render()
        }
        7 => "a".repeat(n),
        8 => "ab ".repeat(n / 3 + 1),
        9 => (0..n).map(|_| "a").collect::<Vec<_>>().join("\n"),
        // n quoted segments on one line
        10 => "\"q\" ".repeat(n / 4 + 1),
        // n legend entries
        _ => format!("x\n# Legend:\n{}", (0..n).map(|i| format!("a{} = {{fill:red}}", i)).collect::<Vec<_>>().join("\n")),
    }
}

const FAMILY_NAMES: [&str; 12] = ["dense-grid", "run-", "run|", "run/", "run\\", "staircase", "nested-boxes", "one-word", "words", "one-char-lines", "quoted-segments", "legend-entries"];

fn timed(input: &str) -> Result<f64, String> {
    // a deliberately small stack: recursion that grows with the input shows up as an overflow
    let inp = input.to_string();
    let h = std::thread::Builder::new()
        .stack_size(1 << 20)
        .spawn(move || {
            let t = Instant::now();
            let r = conv::convert(&inp, &Sett::bare(), Entry::WithSettings);
            (t.elapsed().as_secs_f64(), r.map(|s| s.len()))
        })
        .map_err(|e| e.to_string())?;
    match h.join() {
        Ok((t, Ok(_))) => Ok(t),
        Ok((_, Err(p))) => Err(format!("panicked: {}", p)),
        Err(_) => Err("thread died".into()),
    }
}

impl Prop for C01 {
    fn id(&self) -> &'static str {
        "C01"
    }
    fn rule(&self) -> &'static str {
        "every input of: all 2-character neighbourhoods of the full drawing alphabet and all 3-character neighbourhoods of the ASCII alphabet (quick: a seed-selected 1/4 slice), all rows over {\",\\,a,space,-,一} up to length 6 (thorough 7), \
         all strings over the 14 legend-grammar characters up to length 4 (thorough 5) after a diagram line, all brace/tag strings up to length 5 inside and outside a box, every Unicode scalar of the tier's set in 3 contexts, \
         every catalogue circle with one cell replaced by any ASCII drawing character (quick: circles up to 9 cells wide), bullets x 8 directions x lengths x line characters, a document corpus x 9 extreme scales x 8 switch sets x 5 entry points x override sizes, \
         and 12 growth families at doubling sizes on a 1 MiB stack; each call runs in an isolated worker process: it must return (no panic, abort, stack overflow, stall beyond the cap), and time(2n) <= 64 x time(n) + 50 ms. \
         distinct_nontrivial = distinct (scope, output length class) outcomes"
    }
    fn assumptions(&self) -> Vec<String> {
        vec![
            "the polynomial-time clause is decided as a bounded growth ratio on the listed families plus the absence of a stall in any enumerated call; it is not a complexity proof".into(),
            "the engine is built with overflow checks and debug assertions on, which is stricter than a release build".into(),
        ]
    }
    fn call_cap_s(&self, scope: &str) -> u64 {
        if scope == "growth" || scope == "deep-groups" {
            600
        } else {
            20
        }
    }
    fn shrinkable(&self, scope: &str) -> bool {
        scope != "growth" && scope != "configs" && scope != "deep-groups"
    }
    fn scopes(&self, tier: Tier, seed: u64) -> Vec<Scope> {
        let quick = tier == Tier::Quick;
        let mut v = vec![];
        v.push(Scope::new("nbhd2", "every drawing character (ASCII + unicode) with one other at each neighbouring position", |f| {
            let mut a = shapes::sigma_ascii();
            a.extend(shapes::sigma_uni());
            enumr::nbhd(&a, &a, 1, &mut |s| f(Case::s(s)));
        }));
        let nsl: u64 = if quick { 4 } else { 1 };
        let sl = seed % nsl;
        v.push(Scope::new(&format!("nbhd3[{}/{}]", sl, nsl), "every ASCII drawing character with two others at the neighbouring positions (slice = seed mod slices, complete)", move |f| {
            let a = shapes::sigma_ascii();
            let mut i = 0u64;
            enumr::nbhd(&a, &a, 2, &mut |s| {
                if i % nsl == sl {
                    f(Case::s(s));
                }
                i += 1;
            });
        }));
        let ql = if quick { 6 } else { 7 };
        v.push(Scope::new("quote-rows", "all rows over {\",\\,a,space,-,一}", move |f| {
            enumr::strings_upto(&['"', '\\', 'a', ' ', '-', '一'], ql, &mut |s| f(Case::s(s.iter().collect::<String>())))
        }));
        let qs = if quick { 4 } else { 5 };
        v.push(Scope::new("quote-rows-in-shapes", "all rows over {\",\\,a,space,{,}} placed inside a box, inside a rounded box, inside a circle, under a slash and next to text", move |f| {
            let big_circle = shapes::catalog().get(12).cloned().unwrap_or_default();
            enumr::strings_upto(&['"', '\\', 'a', ' ', '{', '}'], qs, &mut |s| {
                let t: String = s.iter().collect();
                if t.is_empty() {
                    return;
                }
                f(Case::s(format!("+-------+\n| {:<6}|\n+-------+", t)));
                f(Case::s(format!(".-------.\n|{:<7}|\n'-------'", t)));
                f(Case::s(format!(" /\n/{}\nab{}cd", t, t)));
                // the middle row of a large catalogue circle
                let rows: Vec<&str> = big_circle.split('\n').collect();
                if rows.len() > 2 {
                    let mid = rows.len() / 2;
                    let mut out: Vec<String> = rows.iter().map(|r| r.to_string()).collect();
                    let mut row: Vec<char> = out[mid].chars().collect();
                    for (i, ch) in t.chars().enumerate() {
                        if 3 + i < row.len().saturating_sub(1) {
                            row[3 + i] = ch;
                        }
                    }
                    out[mid] = row.into_iter().collect();
                    f(Case::s(out.join("\n")));
                }
            })
        }));
        let ll = if quick { 4 } else { 5 };
        v.push(Scope::new("legend-strings", "a diagram line followed by every string over {#,L,e,g,n,d,:,space,=,{,},a,LF,CR}; also with the literal header prefixed", move |f| {
            let a = ['#', 'L', 'e', 'g', 'n', 'd', ':', ' ', '=', '{', '}', 'a', '\n', '\r'];
            enumr::strings_upto(&a, ll, &mut |s| {
                let t: String = s.iter().collect();
                f(Case::s(format!("+-+\n{}", t)));
                f(Case::s(format!("ab\n# Legend:{}", t)));
            })
        }));
        v.push(Scope::new("legend-placements", "the literal legend marker (and near misses) at the start, in the middle and at the end of a line, after every kind of prefix, followed by well-formed / malformed / no entries", |f| {
            let prefixes = ["", " ", "x ", "see the ", "#", "| ", "\"", "一 ", "\t", "# Legend: "];
            let markers = ["# Legend:", "#Legend:", "# Legend", "## Legend:", "# Legend: x", "# legend:"];
            let suffixes = ["", " below", " |", "\n", "\na = {fill:red}", "\na = {", "\n# Legend:\nb = {x}", "\r\na = {x}\r\n"];
            let above = ["", "+-+\n", "text\n"];
            for a in above {
                for p in prefixes {
                    for m in markers {
                        for su in suffixes {
                            f(Case::s(format!("{}{}{}{}", a, p, m, su)));
                        }
                    }
                }
            }
        }));
        v.push(Scope::new("legend-after-unicode", "every string up to length 3 over {a, é, 一, 𝔘 and the characters whose lower- or upper-case form has another UTF-8 length: K (Kelvin), Ω (Ohm), Å (Angstrom), İ, ß, ẞ, ŉ, ﬁ} as the drawing in front of a legend (offsets into a case-folded or otherwise transformed copy of the input do not fit the input)", |f| {
            let al = ['a', 'é', '一', '𝔘', '\u{212a}', '\u{2126}', '\u{212b}', '\u{130}', 'ß', '\u{1e9e}', '\u{149}', '\u{fb01}'];
            enumr::strings_upto(&al, 3, &mut |st| {
                let t: String = st.iter().collect();
                if t.is_ascii() {
                    return;
                }
                f(Case::s(format!("{}\n# Legend:\na = {{fill:red}}\n", t)));
                f(Case::s(format!("300 {} café # Legend:", t)));
                f(Case::s(format!("{}\n# legend:\na = {{fill:red}}", t)));
            })
        }));
        v.push(Scope::new("brace-strings", "every string over {{,},a,comma,*,space} up to length 5, alone and inside a box", |f| {
            enumr::strings_upto(&['{', '}', 'a', ',', '*', ' '], 5, &mut |s| {
                let t: String = s.iter().collect();
                f(Case::s(t.clone()));
                f(Case::s(format!("+-------+\n|{:<7}|\n+-------+", t)));
            })
        }));
        v.push(Scope::new("scalars", "every Unicode scalar of the tier's set alone, between two dashes, and inside quotes", move |f| {
            let set: Vec<char> = if quick {
                let mut s: Vec<u32> = (0..0x3000u32).collect();
                let mut b = 0x3000u32;
                while b <= 0x10FFFF {
                    s.push(b);
                    s.push(b + 0xFF);
                    b += 0x100;
                }
                s.into_iter().filter_map(char::from_u32).collect()
            } else {
                (0..=0x10FFFFu32).filter_map(char::from_u32).collect()
            };
            for c in set {
                f(Case::s(c.to_string()));
                f(Case::s(format!("-{}-", c)));
                f(Case::s(format!("\"{}\" |", c)));
            }
        }));
        v.push(Scope::new("circle-defects", "every catalogue circle with one cell (of the drawing or its bounding box) replaced by any ASCII drawing character", move |f| {
            let a = shapes::sigma_ascii();
            for art in shapes::catalog() {
                let (w, h) = enumr::extent(&art);
                if quick && w > 9 {
                    continue;
                }
                let mut g: Vec<Vec<char>> = art.split('\n').map(|l| l.chars().collect()).collect();
                for r in g.iter_mut() {
                    while r.len() < w {
                        r.push(' ');
                    }
                }
                for r in 0..h {
                    for c in 0..w {
                        let orig = g[r][c];
                        for &ch in a.iter().chain([' '].iter()) {
                            if ch == orig {
                                continue;
                            }
                            g[r][c] = ch;
                            f(Case::s(g.iter().map(|r| r.iter().collect::<String>()).collect::<Vec<_>>().join("\n")));
                        }
                        g[r][c] = orig;
                    }
                }
            }
        }));
        v.push(Scope::new("touching-shapes", "catalogue circles touching or overlapping each other, circles stuck to boxes, arcs from corrupted circles and circle parts (several catalogue matches in one group)", |f| {
            for d in shapes::touching_circles_family() {
                f(Case::s(d));
            }
            for d in shapes::circle_parts_family() {
                f(Case::s(d));
            }
            for d in ["()()", "(_)(_)", "()\n()", "(_)(_)(_)", "+--+()\n|  |\n+--+", "()+--+\n  |  |\n  +--+", "(())", "()()()()"] {
                f(Case::s(d));
            }
        }));
        v.push(Scope::new("deep-groups", "one connected group of 30 000 (thorough 60 000) characters: a rule, a word, a vertical line, on a 1 MiB stack (recursion that grows with the group size overflows)", move |f| {
            let n: i64 = if quick { 30_000 } else { 60_000 };
            for fam in [1i64, 7, 2] {
                f(Case::sn("", vec![fam, n]));
            }
        }));
        v.push(Scope::new("bullets", "bullets and arrow heads after lines of every slope and every line character, lengths 1..12", |f| {
            for d in 0..8u8 {
                for lc in ['-', '~', '=', '_', '|', ':', '!', '/', '\\', '+', '.', '\'', '─', '│', '╱', '╲'] {
                    for head in ['*', 'o', 'O', '>', '<', '^', 'v', 'V', '#', 'x', 'X'] {
                        for l in [1usize, 2, 3, 5, 8, 12] {
                            f(Case::s(shapes::line_with_head(d, lc, l, head).render()));
                        }
                    }
                }
            }
        }));
        v.push(Scope::new("configs", "document corpus x 9 scales (f32::MIN_POSITIVE .. f32::MAX) x 8 switch sets x 5 entry points x override sizes", |f| {
            for (i, _d) in corpus().iter().enumerate() {
                for sc in 0..9 {
                    f(Case::sn("", vec![i as i64, sc]));
                }
            }
        }));
        let maxk = if quick { 3 } else { 5 };
        v.push(Scope::new("growth", "12 families at sizes base*2^k: time(2n) <= 64*time(n)+50ms on a 1 MiB stack", move |f| {
            for fam in 0..12i64 {
                for k in 0..maxk {
                    f(Case::sn("", vec![fam, k as i64]));
                }
            }
        }));
        if !quick {
            v.push(Scope::new("sparse3", "all 3x3 grids with at most 3 non-blank cells over the ASCII drawing alphabet", |f| {
                let a = shapes::sigma_ascii();
                enumr::sparse(&a, 3, 3, 3, &mut |s| f(Case::s(s)));
            }));
            v.push(Scope::new("examples-mutated", "every bundled example with every single line deleted or duplicated", |f| {
                for (_n, d) in shapes::bundled_examples() {
                    let lines: Vec<&str> = d.split('\n').collect();
                    if lines.len() > 120 {
                        continue;
                    }
                    for i in 0..lines.len() {
                        let mut a = lines.clone();
                        a.remove(i);
                        f(Case::s(a.join("\n")));
                        let mut b = lines.clone();
                        b.insert(i, lines[i]);
                        f(Case::s(b.join("\n")));
                    }
                }
            }));
        }
        v
    }
    fn check(&self, scope: &str, case: &Case, cx: &mut Cx) {
        match scope {
            "configs" => {
                let doc = &corpus()[case.n[0] as usize];
                let scales = [f32::MIN_POSITIVE, 1e-30, 0.5, 1.0, 8.0, 37.5, 1e10, 1e30, f32::MAX];
                let sc = scales[case.n[1] as usize];
                for m in 0..8u8 {
                    let s = Sett { scale: sc, backdrop: m & 1 != 0, styles: m & 2 != 0, defs: m & 4 != 0, ..Sett::default_() };
                    if let Some(o) = cx.conv(doc, &s) {
                        cx.compared();
                        cx.outcome(&("configs", o.len() / 256));
                    }
                    if m == 0 || m == 7 {
                        for (w, h) in [(0.0f32, 0.0f32), (1.0, 1.0), (1e30, 1e30), (f32::MAX, f32::MAX)] {
                            cx.conv_entry(doc, &s, Entry::OverrideSize(w, h));
                            cx.compared();
                        }
                    }
                }
                if case.n[1] == 4 {
                    for e in [Entry::ToSvg, Entry::Pretty, Entry::Compressed] {
                        cx.conv_entry(doc, &Sett::default_(), e);
                        cx.compared();
                    }
                }
            }
            "deep-groups" => {
                let (fam, n) = (case.n[0], case.n[1] as usize);
                let input = growth_input(fam, if fam == 2 { n / 4 } else { n });
                crate::runner::arm_watchdog_pub(input.len() * 3);
                cx.conversions += 1;
                match timed(&input) {
                    Ok(t) => {
                        cx.compared();
                        cx.outcome(&("deep", fam));
                        cx.tally_n(&format!("deep-group-ms {}", FAMILY_NAMES[fam as usize]), (t * 1000.0) as u64);
                    }
                    Err(e) => cx.fail("panic", format!("one connected group of {} characters ({}): {}", n, FAMILY_NAMES[fam as usize], e)),
                }
            }
            "growth" => {
                let fam = case.n[0];
                let k = case.n[1] as u32;
                let base: usize = match fam {
                    0 => 8,
                    1..=4 => 50,
                    5 => 10,
                    6 => 2,
                    7..=9 => 500,
                    10 => 200,
                    _ => 100,
                };
                // the dense grid is the most expensive family (cubic): its largest pair is 64x32 / 128x64
                if fam == 0 && k > 3 {
                    cx.tally("growth: dense grid above 128x64 not run (minutes per call)");
                    cx.outcome(&("growth", fam, k));
                    return;
                }
                let n = base << k;
                let a = growth_input(fam, n);
                let b = growth_input(fam, 2 * n);
                let mut ta = f64::INFINITY;
                let mut tb = f64::INFINITY;
                for rep in 0..3 {
                    if rep > 0 && tb > 5.0 {
                        break;
                    }
                    crate::runner::arm_watchdog_pub(b.len());
                    match (timed(&a), timed(&b)) {
                        (Ok(x), Ok(y)) => {
                            ta = ta.min(x);
                            tb = tb.min(y);
                        }
                        (Err(e), _) | (_, Err(e)) => {
                            cx.fail("panic", format!("growth family {} size {}: {}", FAMILY_NAMES[fam as usize], n, e));
                            return;
                        }
                    }
                    cx.conversions += 2;
                }
                cx.compared();
                cx.outcome(&("growth", fam, k));
                cx.tally_n(&format!("growth-ms {} n={}", FAMILY_NAMES[fam as usize], 2 * n), (tb * 1000.0) as u64);
                if ta >= 0.005 && tb > 64.0 * ta + 0.05 {
                    cx.fail(
                        "growth",
                        format!("family {}: size {} takes {:.1} ms but size {} takes {:.1} ms (ratio {:.0})", FAMILY_NAMES[fam as usize], n, ta * 1e3, 2 * n, tb * 1e3, tb / ta),
                    );
                }
            }
            _ => {
                if let Some(o) = cx.conv(&case.s, &Sett::bare()) {
                    cx.compared();
                    cx.outcome(&(scope.len(), (o.len() / 64).min(40)));
                }
            }
        }
    }
}
