//! C04 — every non-drawing character appears exactly once, as text, in its own cell.
use crate::conv::Sett;
use crate::enumr;
use crate::refmodel;
use crate::runner::{Case, Cx, Prop, Scope, Tier};
use crate::shapes;
use crate::svg::{Doc, Kind};
use std::collections::BTreeMap;

pub struct C04;

const STEXT: [char; 8] = [' ', 'a', 'é', 'я', '一', '°', '-', '|'];

thread_local! {
    /// in the scopes made of plain words every letter and digit is a label
    static ALNUM_LABELS: std::cell::Cell<bool> = std::cell::Cell::new(false);
}

fn is_label(c: char) -> bool {
    if ALNUM_LABELS.with(|a| a.get()) && c.is_alphanumeric() {
        return true;
    }
    matches!(c, 'a' | 'b' | 'é' | 'я' | '一' | '二' | 'z' | '1' | '°' | '&' | '\u{301}' | '\u{200d}' | '\u{d7ff}' | '\u{e000}' | '\u{fffd}') || c as u32 >= 0x10000
}

/// compare the text elements of `d` with the label characters of `input`
pub fn check_texts(cx: &mut Cx, input: &str, d: &Doc, drawing_chars_never_text: bool) {
    check_texts_scaled(cx, input, d, drawing_chars_never_text, 8.0)
}

pub fn check_texts_scaled(cx: &mut Cx, input: &str, d: &Doc, drawing_chars_never_text: bool, sc: f64) {
    let rows: Vec<Vec<char>> = refmodel::rows(input).iter().map(|r| refmodel::expand(r)).collect();
    let mut want: BTreeMap<(usize, usize), char> = BTreeMap::new();
    for (r, row) in rows.iter().enumerate() {
        for (c, ch) in row.iter().enumerate() {
            if is_label(*ch) {
                want.insert((r, c), *ch);
            }
        }
    }
    let mut got: BTreeMap<(usize, usize), (char, usize)> = BTreeMap::new();
    for t in d.of(Kind::Text) {
        let col = ((t.xs[0] - sc / 4.0) / sc * 1e6).round() / 1e6;
        let row = ((t.ys[0] - 1.5 * sc) / (2.0 * sc) * 1e6).round() / 1e6;
        if col.fract() != 0.0 || row.fract() != 0.0 || col < 0.0 || row < 0.0 {
            cx.fail("text-anchor", format!("{} is not anchored at point Q of a cell", t.brief()));
            return;
        }
        let (mut c, r) = (col as usize, row as usize);
        for ch in t.text.chars() {
            let there = rows.get(r).and_then(|row| row.get(c)).copied().unwrap_or(' ');
            if there != ch {
                cx.fail(
                    "text-shifted",
                    format!("{} shows {:?} at row {} column {} where the input has {:?}", t.brief(), ch, r, c, there),
                );
                return;
            }
            if !ch.is_whitespace() {
                let e = got.entry((r, c)).or_insert((ch, 0));
                e.1 += 1;
            }
            c += enumr::char_cols(ch);
        }
    }
    for ((r, c), ch) in &want {
        match got.get(&(*r, *c)) {
            None => {
                cx.fail("text-dropped", format!("label character {:?} at row {} column {} is shown by no text element", ch, r, c));
                return;
            }
            Some((_, n)) if *n > 1 => {
                cx.fail("text-duplicated", format!("label character {:?} at row {} column {} is shown by {} text elements", ch, r, c, n));
                return;
            }
            _ => {}
        }
    }
    for ((r, c), (ch, _)) in &got {
        if drawing_chars_never_text && !want.contains_key(&(*r, *c)) {
            cx.fail("drawing-char-as-text", format!("character {:?} at row {} column {} is a drawing character here but is shown as text", ch, r, c));
            return;
        }
    }
}

impl Prop for C04 {
    fn id(&self) -> &'static str {
        "C04"
    }
    fn rule(&self) -> &'static str {
        "all rows over {space,a,é,я,一,° (East-Asian-ambiguous width),-,|} up to length 5 (thorough 7), each alone and stacked on a row of dashes (one span); thorough: three-row documents text/dashes/text with rows up to length 4 \
         rows inside a box, and labels on every blank cell around and inside shape families (incl. arcs and overlapping diagonals, at the origin and shifted); every text element must be anchored at point Q of a cell and spell the input characters found at consecutive display columns; every label character is shown exactly once. \
         distinct_nontrivial = distinct (text count, text lengths) outcomes with at least one text"
    }
    fn assumptions(&self) -> Vec<String> {
        vec!["in this alphabet '-' and '|' always draw (they never have to appear as text) and a, é, я, 一 are labels".into()]
    }
    fn shrinkable(&self, _s: &str) -> bool {
        true
    }
    fn scopes(&self, tier: Tier, _seed: u64) -> Vec<Scope> {
        let n = if tier == Tier::Quick { 5 } else { 7 };
        let mut v = vec![
            Scope::new("rows", "every row alone", move |f| {
                enumr::strings_upto(&STEXT, n, &mut |s| f(Case::s(s.iter().collect::<String>())))
            }),
            Scope::new("rows-on-dashes", "every row stacked on a row of dashes of the same display width", move |f| {
                enumr::strings_upto(&STEXT, n, &mut |s| {
                    let row: String = s.iter().collect();
                    let w = enumr::display_cols(&row).max(1);
                    f(Case::s(format!("{}\n{}", row, "-".repeat(w))))
                })
            }),
        ];
        let m = if tier == Tier::Quick { 2 } else { 4 };
        v.push(Scope::new("three-rows", "text / dashes / text with both text rows up to the length bound", move |f| {
            let mut rows: Vec<String> = vec![];
            enumr::strings_upto(&['a', 'é', '一', '°', ' '], m, &mut |s| rows.push(s.iter().collect()));
            for a in &rows {
                for b in &rows {
                    let w = enumr::display_cols(a).max(enumr::display_cols(b)).max(1);
                    f(Case::s(format!("{}\n{}\n{}", a, "-".repeat(w), b)));
                }
            }
        }));
        v.push(Scope::new("zero-width", "all rows over {a, combining acute U+0301, zero-width joiner U+200D, space} up to length 5, alone and on a row of dashes: a zero-width character occupies its own cell and must be shown", |f| {
            enumr::strings_upto(&['a', '\u{301}', '\u{200d}', ' '], 5, &mut |s| {
                let row: String = s.iter().collect();
                if row.contains('\u{301}') || row.contains('\u{200d}') {
                    f(Case::s(row.clone()));
                    f(Case::s(format!("{}\n{}", row, "-".repeat(s.len().max(1)))));
                }
            })
        }));
        v.push(Scope::new("planes", "all rows up to length 3 over {a, space} and one character at and next to every boundary of the XML Char ranges and in every kind of supplementary block (U+D7FF, U+E000, U+FFFD, U+10000, U+10FFF, U+11005, U+1D49C, U+1F600, U+20BB7, U+10FFFD, U+10FFFF), alone and on a row of dashes", |f| {
            let al = ['a', ' ', '\u{d7ff}', '\u{e000}', '\u{fffd}', '\u{10000}', '\u{10fff}', '\u{11005}', '\u{1d49c}', '\u{1f600}', '\u{20bb7}', '\u{10fffd}', '\u{10ffff}'];
            enumr::strings_upto(&al, 3, &mut |s| {
                let row: String = s.iter().collect();
                if row.chars().any(|c| c as u32 > 0x7f) {
                    f(Case::s(row.clone()));
                    f(Case::s(format!("{}\n{}", row, "-".repeat(enumr::display_cols(&row).max(1)))));
                }
            })
        }));
        v.push(Scope::new("legend-words", "the words '# Legend:' (and near misses) inside ordinary text: followed on the same line by words, in the middle of a sentence, on a line of its own followed by lines that are not legend entries starting with a letter-free line; every letter and digit must still be shown", |f| {
            for d in [
                "ab # Legend: see the notes", "# Legend: none here", "note\n# Legend: table 1\nab cd", "see # Legend: and\nthe rest", "ab\n# Legend:cd", "a1 #Legend: b2", "ab # Legend",
                "# Legend: a = {fill:red}", "é一 # Legend: zz",
            ] {
                f(Case::s(d));
                f(Case::s(format!("+--+\n|  |\n+--+\n{}", d)));
            }
        }));
        v.push(Scope::new("scalar-then-label", "every scalar from U+00A1 to U+3100 that is not white space or a control, the first and last scalar of every later 256-block, as '<c> ab' and 'ab <c> ab': the labels after it must sit in the cells their display columns say (a double-width character takes two cells wherever its code point lies)", |f| {
            let mut cs: Vec<char> = (0xA1u32..0x3100).filter_map(char::from_u32).collect();
            let mut b = 0x3100u32;
            while b <= 0x2FFFF {
                cs.extend(char::from_u32(b));
                cs.extend(char::from_u32(b + 0xFF));
                b += 0x100;
            }
            for c in cs {
                if c.is_whitespace() || c.is_control() {
                    continue;
                }
                f(Case::s(format!("{} ab", c)));
                f(Case::s(format!("ab {} ab", c)));
            }
        }));
        v.push(Scope::new("two-text-rows", "all pairs of rows over {a,b,space} up to length 4, directly above each other (labels of adjacent rows must not be joined)", |f| {
            let mut rows: Vec<String> = vec![];
            enumr::strings_upto(&['a', 'b', ' '], 4, &mut |s| rows.push(s.iter().collect()));
            for a in &rows {
                for b in &rows {
                    if !a.trim().is_empty() && !b.trim().is_empty() {
                        f(Case::s(format!("{}\n{}", a, b)));
                    }
                }
            }
        }));
        v.push(Scope::new("markup-as-text", "all rows over {a,<,>,&,',space} up to length 5: free-standing markup characters are text and must read back as themselves", |f| {
            enumr::strings_upto(&['a', '<', '>', '&', '\'', ' '], 5, &mut |s| {
                let row: String = s.iter().collect();
                if row.contains('<') || row.contains('>') || row.contains('&') {
                    f(Case::s(row))
                }
            })
        }));
        v.push(Scope::new("scales", "rows over {a,é,一,space} up to length 4 and labelled boxes at scales 0.5, 0.75, 1, 2.5, 20: the anchor must stay at point Q of the first character's cell", |f| {
            enumr::strings_upto(&['a', 'é', '一', ' '], 4, &mut |s| {
                let row: String = s.iter().collect();
                for sc in [5i64, 75, 100, 250, 2000] {
                    f(Case::sn(row.clone(), vec![sc]));
                    f(Case::sn(format!("+------+\n|{:<6}|\n| {:<5}|\n+------+", row, row), vec![sc]));
                }
            })
        }));
        let step = if tier == Tier::Quick { 4 } else { 1 };
        v.push(Scope::new("labels-near-shapes", "shape families (boxes, circles, arcs from corrupted circles, runs, arrows, overlapping diagonals): a one- or two-character label put on every blank cell of the drawing's bounding box and its one-cell surround, at the origin and shifted", move |f| {
            let mut ds: Vec<String> = shapes::family_samples(8).into_iter().enumerate().filter(|(i, _)| i % step == 0).map(|(_, x)| x.1).collect();
            ds.extend(shapes::circle_defect_family(9).into_iter().step_by(step * 3));
            ds.extend(shapes::overlapping_bbox_family().into_iter().step_by(step * 2));
            ds.extend(shapes::circle_rows_family().into_iter().filter(|d| enumr::extent(d).0 <= 12).step_by(if step > 1 { 2 } else { 1 }));
            for d in ds {
                if d.contains('"') || d.contains('{') || d.chars().any(is_label) {
                    continue;
                }
                let (w, h) = enumr::extent(&d);
                if w > 16 || h > 12 {
                    continue;
                }
                let g: Vec<Vec<char>> = d.split('\n').map(|l| l.chars().collect()).collect();
                for r in 0..h + 2 {
                    for c in 0..w + 2 {
                        // canvas coordinates with a one-cell surround
                        let (gr, gc) = (r as i32 - 1, c as i32 - 1);
                        let at = |rr: i32, cc: i32| -> char {
                            if rr < 0 || cc < 0 {
                                return ' ';
                            }
                            g.get(rr as usize).and_then(|row| row.get(cc as usize)).copied().unwrap_or(' ')
                        };
                        if at(gr, gc) != ' ' {
                            continue;
                        }
                        for label in ["a", "ab"] {
                            if label.len() == 2 && at(gr, gc + 1) != ' ' {
                                continue;
                            }
                            let mut cv = shapes::Canvas::new();
                            cv.paste(1, 1, &d);
                            cv.text(c as i32, r as i32, label);
                            let body = cv.render();
                            f(Case::s(body.clone()));
                            f(Case::s(enumr::shift(&body, 3, 2)));
                        }
                    }
                }
            }
        }));
        let bl = if tier == Tier::Quick { 3 } else { 5 };
        v.push(Scope::new("in-box", "rows over {space,a,é,一} inside a box of 6 columns (text next to '|')", move |f| {
            enumr::strings_upto(&['a', 'é', '一', ' '], bl, &mut |s| {
                let row: String = s.iter().collect();
                let pad = 6usize.saturating_sub(enumr::display_cols(&row));
                f(Case::s(format!("+------+\n|{}{}|\n+------+", row, " ".repeat(pad))))
            })
        }));
        v
    }
    fn check(&self, scope: &str, case: &Case, cx: &mut Cx) {
        if scope == "scales" {
            let sc = case.n[0] as f64 / 100.0;
            let d = match cx.conv_doc(&case.s, &Sett::bare_scale(sc as f32)) {
                Some(d) => d,
                None => return,
            };
            cx.compared();
            check_texts_scaled(cx, &case.s, &d, false, sc);
            return;
        }
        let d = match cx.conv_doc(&case.s, &Sett::bare()) {
            Some(d) => d,
            None => return,
        };
        cx.compared();
        if scope == "legend-words" {
            ALNUM_LABELS.with(|a| a.set(true));
            check_texts(cx, &case.s, &d, false);
            ALNUM_LABELS.with(|a| a.set(false));
            return;
        }
        if d.count(Kind::Text) > 0 {
            let lens: Vec<usize> = d.of(Kind::Text).map(|t| t.text.chars().count()).collect();
            cx.outcome(&lens);
        }
        // in the shape scopes other drawing characters may legitimately be shown as text (an isolated '.')
        check_texts(cx, &case.s, &d, scope != "labels-near-shapes" && scope != "markup-as-text" && scope != "scalar-then-label");
    }
}
