//! C18 — settings switches and entry points are consistent and leave geometry alone.
use crate::conv::{Entry, Sett};
use crate::runner::{Case, Cx, Prop, Scope, Tier};
use crate::shapes;
use crate::svg::{self, Doc};
use crate::xmlmini::{self, Child, Element};

pub struct C18;

fn corpus(tier: Tier) -> Vec<String> {
    let mut v: Vec<String> = vec![];
    let step = if tier == Tier::Quick { 4 } else { 1 };
    for (i, (_n, d)) in shapes::family_samples(12).into_iter().enumerate() {
        if i % step == 0 {
            v.push(d);
        }
    }
    for d in [
        "",
        "a",
        "+---+\n|{a}|\n+---+\n# Legend:\na = {fill:red}\n",
        "+------+\n| {w}  |\n+------+  .-----.\n          |{a,b}|\n          '-----'",
        "*-->\n\"<q>\" & 'x'\n# Legend:\nz = {stroke:blue}\ny = {fill:none}",
        ".-.\n| |\n'-'  text here",
        "一二三 ─┐\n      │",
        "\u{feff}+--+\n|  |\n+--+",
        "\u{0}ab",
        "\r\n+--+\r\n",
        "\u{200b}x\u{301}",
        "  ---+\n     |",
        "\t*-->",
    ] {
        v.push(d.to_string());
    }
    if tier == Tier::Thorough {
        for (_n, d) in shapes::bundled_examples() {
            if d.len() < 3000 {
                v.push(d);
            }
        }
    }
    v
}

const COSMETIC_VALUES: [&str; 10] = ["red", "#ff00aa", "rgb(1, 2, 3)", "a b", "Times New Roman, serif", "x#y,z", "none", "transparent", "", "inherit"];

/// children of the root that are not style / defs / backdrop, as canonical dumps
fn body(root: &Element) -> Vec<String> {
    let mut v = vec![];
    for c in &root.children {
        if let Child::Elem(e) = c {
            let special = e.name == "style" || e.name == "defs" || (e.name == "rect" && e.attr("class") == Some("backdrop"));
            if !special {
                let mut s = String::new();
                xmlmini::dump(e, &mut s);
                v.push(s);
            }
        }
    }
    v
}

fn head(root: &Element) -> Vec<String> {
    root.elems()
        .filter(|e| e.name == "style" || e.name == "defs" || (e.name == "rect" && e.attr("class") == Some("backdrop")))
        .map(|e| e.name.clone())
        .collect()
}

fn strip_ws(e: &Element) -> Element {
    let mut out = Element { name: e.name.clone(), attrs: e.attrs.clone(), children: vec![] };
    let keep_text = e.name == "text" || e.name == "style";
    for c in &e.children {
        match c {
            Child::Elem(x) => out.children.push(Child::Elem(strip_ws(x))),
            Child::Text(t) => {
                if keep_text || !t.trim().is_empty() {
                    out.children.push(Child::Text(t.clone()))
                }
            }
        }
    }
    out
}

fn has_interelement_ws(e: &Element) -> bool {
    if e.name == "text" || e.name == "style" {
        return false;
    }
    e.children.iter().any(|c| match c {
        Child::Text(t) => t.trim().is_empty(),
        Child::Elem(x) => has_interelement_ws(x),
    })
}

impl Prop for C18 {
    fn id(&self) -> &'static str {
        "C18"
    }
    fn rule(&self) -> &'static str {
        "every document of the corpus (shape families, legends, tags, hostile text; thorough: bundled examples) x all 8 include_* combinations, \
         x one-factor and all-pairs cosmetic settings over 10 values per field (incl. the CSS keywords none, transparent, inherit and the empty string), x 4 override sizes, x the 5 entry points; \
         oracles: only the switched element appears/disappears, cosmetic settings only change the style text, an override size only changes \
         root/backdrop size, to_svg == pretty == with_settings(default) byte for byte, compressed == pretty without inter-element whitespace. \
         distinct_nontrivial = distinct document bodies"
    }
    fn scopes(&self, tier: Tier, _seed: u64) -> Vec<Scope> {
        vec![
            Scope::new("switches", "corpus x all 8 include_* combinations", move |f| {
                for d in corpus(tier) {
                    f(Case::s(d));
                }
            }),
            Scope::new("cosmetic", "corpus subset x one-factor-at-a-time and all pairs of the five cosmetic fields over 6 values, font sizes, stroke widths", move |f| {
                for (i, d) in corpus(tier).into_iter().enumerate() {
                    if i % 3 == 0 {
                        f(Case::s(d));
                    }
                }
            }),
            Scope::new("override", "corpus x override sizes {(0,0),(1,1),(123.5,7),(1e6,1e6)}", move |f| {
                for d in corpus(tier) {
                    f(Case::s(d));
                }
            }),
            Scope::new("settings-histories", "4 drawings x every ordered pair (X, Y) of 11 settings that differ from the default in exactly one field (or not at all): Y converted right after X must equal Y converted right after a conversion whose settings differ in every field, and its style sheet must carry Y's own value", |f| {
                for d in 0..4i64 {
                    for x in 0..11i64 {
                        for y in 0..11i64 {
                            f(Case::sn("hist", vec![d, x, y]));
                        }
                    }
                }
            }),
            Scope::new("entry-points", "corpus x the five entry points", move |f| {
                for d in corpus(tier) {
                    f(Case::s(d));
                }
            }),
        ]
    }
    fn check(&self, scope: &str, case: &Case, cx: &mut Cx) {
        let input = &case.s;
        let parse_tree = |cx: &mut Cx, s: &str| -> Option<xmlmini::Document> {
            match xmlmini::parse(s) {
                Ok(d) => Some(d),
                Err(e) => {
                    // well-formedness as such is C02's business; here an
                    // unparseable output only prevents the comparison
                    cx.tally("unparseable-output-skipped");
                    let _ = e;
                    None
                }
            }
        };
        match scope {
            "switches" => {
                let mut reference: Option<Vec<String>> = None;
                let mut parts: std::collections::BTreeMap<String, (u8, String)> = Default::default();
                let mut root_attrs: Option<Vec<(String, String)>> = None;
                for m in 0..8u8 {
                    let s = Sett { backdrop: m & 1 != 0, styles: m & 2 != 0, defs: m & 4 != 0, ..Sett::default_() };
                    let out = match cx.conv(input, &s) {
                        Some(o) => o,
                        None => return,
                    };
                    let t = match parse_tree(cx, &out) {
                        Some(t) => t,
                        None => return,
                    };
                    cx.compared();
                    let mut want: Vec<String> = vec![];
                    if s.styles {
                        want.push("style".into());
                    }
                    if s.defs {
                        want.push("defs".into());
                    }
                    if s.backdrop {
                        want.push("rect".into());
                    }
                    let h = head(&t.root);
                    if h != want {
                        cx.fail("switch-elements", format!("switches backdrop={} styles={} defs={}: leading elements {:?} expected {:?}", s.backdrop, s.styles, s.defs, h, want));
                        return;
                    }
                    // each switch adds or removes exactly its own element: the element itself is the same in every combination
                    for e in t.root.elems().take(want.len()) {
                        let mut dump = String::new();
                        xmlmini::dump(e, &mut dump);
                        match parts.get(&e.name) {
                            None => {
                                parts.insert(e.name.clone(), (m, dump));
                            }
                            Some((m0, d0)) => {
                                if *d0 != dump {
                                    cx.fail("switch-elements", format!("the <{}> element differs between switch combination {:03b} and {:03b} (bits: defs, styles, backdrop): the canonical forms ({} and {} bytes) first differ at byte {}", e.name, m0, m, d0.len(), dump.len(), d0.bytes().zip(dump.bytes()).position(|(a, b)| a != b).unwrap_or(d0.len().min(dump.len()))));
                                    return;
                                }
                            }
                        }
                    }
                    match &root_attrs {
                        None => root_attrs = Some(t.root.attrs.clone()),
                        Some(a) => {
                            if *a != t.root.attrs {
                                cx.fail("switch-elements", format!("switches backdrop={} styles={} defs={} changed the attributes of the root element", s.backdrop, s.styles, s.defs));
                                return;
                            }
                        }
                    }
                    let b = body(&t.root);
                    match &reference {
                        None => {
                            cx.outcome(&b);
                            reference = Some(b)
                        }
                        Some(r) => {
                            if *r != b {
                                cx.fail("switch-geometry", format!("switches backdrop={} styles={} defs={} changed the drawn elements", s.backdrop, s.styles, s.defs));
                                return;
                            }
                        }
                    }
                }
            }
            "cosmetic" => {
                let base_s = Sett::default_();
                let base = match cx.conv(input, &base_s).and_then(|o| parse_tree(cx, &o)) {
                    Some(t) => t,
                    None => return,
                };
                let base_body = body(&base.root);
                cx.outcome(&base_body);
                let mut settings: Vec<Sett> = vec![];
                let set = |s: &mut Sett, field: usize, v: &str| match field {
                    0 => s.font_family = v.to_string(),
                    1 => s.fill_color = v.to_string(),
                    2 => s.background = v.to_string(),
                    _ => s.stroke_color = v.to_string(),
                };
                for f1 in 0..4 {
                    for v1 in COSMETIC_VALUES {
                        let mut s = base_s.clone();
                        set(&mut s, f1, v1);
                        settings.push(s.clone());
                        for f2 in (f1 + 1)..4 {
                            for v2 in COSMETIC_VALUES {
                                let mut s2 = s.clone();
                                set(&mut s2, f2, v2);
                                settings.push(s2);
                            }
                        }
                    }
                }
                for fs in [0usize, 1, 14, 72, 1000] {
                    for sw in [0.0f32, 0.5, 2.0, 10.0] {
                        settings.push(Sett { font_size: fs, stroke_width: sw, ..base_s.clone() });
                    }
                }
                for s in settings {
                    let t = match cx.conv(input, &s).and_then(|o| parse_tree(cx, &o)) {
                        Some(t) => t,
                        None => return,
                    };
                    cx.compared();
                    if body(&t.root) != base_body || t.root.attrs != base.root.attrs {
                        cx.fail("cosmetic-geometry", format!("settings {} changed something other than the style sheet", s.to_json()));
                        return;
                    }
                    // defs and backdrop unchanged
                    let pick = |r: &Element, n: &str| -> String {
                        let mut s = String::new();
                        for e in r.elems().filter(|e| e.name == n && (n != "rect" || e.attr("class") == Some("backdrop"))).take(1) {
                            xmlmini::dump(e, &mut s);
                        }
                        s
                    };
                    if pick(&t.root, "defs") != pick(&base.root, "defs") || pick(&t.root, "rect") != pick(&base.root, "rect") {
                        cx.fail("cosmetic-geometry", format!("settings {} changed defs or backdrop", s.to_json()));
                        return;
                    }
                }
            }
            "settings-histories" => {
                let (di, x, y) = (case.n[0] as usize, case.n[1], case.n[2]);
                let docs = ["+--+\n|  |->*\n+--+", "*--#  hello\n\n .-.\n(   )\n `-'", "+-----+\n|{a}  |\n+-----+\n# Legend:\na = {fill:red}", "  ^\n  |\no-+->"];
                let doc = docs[di];
                let token = 0x100000 + (di as i64) * 121 + x * 11 + y;
                let variant = |k: i64, salt: i64| -> (Sett, Option<String>) {
                    let mut s = Sett::default_();
                    let u = format!("#{:06x}", token * 2 + salt);
                    let mut val = None;
                    match k {
                        1 => {
                            s.font_family = format!("fam{}", token * 2 + salt);
                            val = Some(s.font_family.clone());
                        }
                        2 => {
                            s.fill_color = u.clone();
                            val = Some(u);
                        }
                        3 => {
                            s.background = u.clone();
                            val = Some(u);
                        }
                        4 => {
                            s.stroke_color = u.clone();
                            val = Some(u);
                        }
                        5 => s.font_size = 15 + salt as usize,
                        6 => s.stroke_width = 3.5 + salt as f32,
                        7 => s.scale = 5.0 + salt as f32,
                        8 => s.backdrop = false,
                        9 => s.styles = false,
                        10 => s.defs = false,
                        _ => {}
                    }
                    (s, val)
                };
                let (xs, _) = variant(x, 0);
                let (ys, yval) = variant(y, 1);
                let zs = Sett { scale: 3.0, backdrop: true, styles: true, defs: true, font_size: 33, font_family: "zz".into(), fill_color: "#123".into(), background: "#456".into(), stroke_color: "#789".into(), stroke_width: 7.5 };
                if cx.conv(doc, &xs).is_none() {
                    return;
                }
                let o1 = match cx.conv(doc, &ys) {
                    Some(o) => o,
                    None => return,
                };
                if cx.conv(doc, &zs).is_none() {
                    return;
                }
                let o2 = match cx.conv(doc, &ys) {
                    Some(o) => o,
                    None => return,
                };
                cx.compared();
                if o1 != o2 {
                    cx.fail("settings-history", format!("drawing {:?} with settings {} gives another document right after a conversion with settings {} than right after one whose settings differ in every field", doc, ys.to_json(), xs.to_json()));
                    return;
                }
                if let Some(u) = yval {
                    let style = &o1;
                    if !style.contains(&u) {
                        cx.fail("settings-history", format!("drawing {:?}: the style sheet does not carry the value {:?} of settings {} (converted right after settings {})", doc, u, ys.to_json(), xs.to_json()));
                        return;
                    }
                }
                cx.outcome(&(di, x.min(1), y));
            }
            "override" => {
                let s = Sett::default_();
                let base = match cx.conv(input, &s) {
                    Some(o) => o,
                    None => return,
                };
                let bd: Doc = match svg::parse(&base) {
                    Ok(d) => d,
                    Err(_) => return,
                };
                cx.outcome(&bd.skeleton());
                for (w, h) in [(0.0f32, 0.0f32), (1.0, 1.0), (123.5, 7.0), (1e6, 1e6)] {
                    let out = match cx.conv_entry(input, &s, Entry::OverrideSize(w, h)) {
                        Some(o) => o,
                        None => return,
                    };
                    let d = match svg::parse(&out) {
                        Ok(d) => d,
                        Err(_) => return,
                    };
                    cx.compared();
                    let ok = d.w == w as f64
                        && d.h == h as f64
                        && d.backdrop == Some([0.0, 0.0, w as f64, h as f64])
                        && d.elems == bd.elems
                        && d.style == bd.style
                        && d.has_defs == bd.has_defs
                        && d.groups == bd.groups;
                    if !ok {
                        cx.fail("override-size", format!("override size {}x{}: root {}x{} backdrop {:?}; elements equal: {}", w, h, d.w, d.h, d.backdrop, d.elems == bd.elems));
                        return;
                    }
                }
            }
            _ => {
                let d = Sett::default_();
                let a = cx.conv_entry(input, &d, Entry::ToSvg);
                let b = cx.conv_entry(input, &d, Entry::Pretty);
                let c = cx.conv_entry(input, &d, Entry::WithSettings);
                let z = cx.conv_entry(input, &d, Entry::Compressed);
                let bd = Entry::OverrideSize(0.0, 0.0);
                let _ = bd;
                let (a, b, c, z) = match (a, b, c, z) {
                    (Some(a), Some(b), Some(c), Some(z)) => (a, b, c, z),
                    _ => return,
                };
                cx.compared();
                cx.outcome(&a);
                if a != b || b != c {
                    cx.fail("entry-points-differ", "to_svg, to_svg_string_pretty and to_svg_with_settings(default) are not byte-identical".into());
                    return;
                }
                let (tp, tz) = match (parse_tree(cx, &b), parse_tree(cx, &z)) {
                    (Some(p), Some(z)) => (p, z),
                    _ => return,
                };
                cx.compared();
                if has_interelement_ws(&tz.root) {
                    cx.fail("compressed-whitespace", "the compressed form contains whitespace between elements".into());
                    return;
                }
                if strip_ws(&tp.root) != strip_ws(&tz.root) {
                    cx.fail("compressed-differs", "the compressed form is not the pretty document without inter-element whitespace".into());
                }
                // with_override_size using the computed size equals with_settings
                if let Ok(doc) = svg::parse(&c) {
                    if let Some(o) = cx.conv_entry(input, &d, Entry::OverrideSize(doc.w as f32, doc.h as f32)) {
                        cx.compared();
                        if o != c {
                            cx.fail("entry-points-differ", "to_svg_with_override_size(computed size) differs from to_svg_with_settings".into());
                        }
                    }
                }
            }
        }
    }
}
