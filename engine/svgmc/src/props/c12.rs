//! C12 — one cell of margin, everything drawn lies inside the canvas.
use crate::conv::Sett;
use crate::enumr;
use crate::refmodel;
use crate::runner::{Case, Cx, Prop, Scope, Tier};
use crate::shapes;
use crate::svg::Kind;

pub struct C12;

impl Prop for C12 {
    fn id(&self) -> &'static str {
        "C12"
    }
    fn rule(&self) -> &'static str {
        "every input of the scopes x scales {0.5,8,20}: canvas = s*(maxcol+2) x 2s*(maxrow+2) over occupied display cells (2x2 cells when empty; \
         formula only for quote- and legend-free inputs) and the exact bounding box of every element (arc boxes from end points, radius and flags; \
         text = its display columns, one row high) lies inside the canvas. distinct_nontrivial = distinct (skeleton, canvas) pairs with elements"
    }
    fn scopes(&self, tier: Tier, _seed: u64) -> Vec<Scope> {
        let mut v = vec![];
        v.push(Scope::new(
            "edges",
            "shape families at the origin (touching row 0 / column 0) and shifted; wide characters and quoted text at the right and bottom edge; legends",
            |f| {
                for (_n, d) in shapes::family_samples(24) {
                    f(Case::s(d.clone()));
                    f(Case::s(enumr::shift(&d, 3, 2)));
                }
                for d in [
                    "一", "a一", "一a", "--一", "ab\n一二", "é", "\u{301}", "a\u{301}b", "🙂", "-🙂",
                    "\"hello world\"", "\"a\"", "x \"ab\"", "+--+\n|  | \"out\"\n+--+", "a\n\"b\"", "\"一二\" |",
                    "+--+\n|  |\n+--+\n# Legend:\na = {fill:red}\n", "ab\n# Legend:\n",
                    "漢字漢字 \"abcdefgh\" |", "漢字漢字漢字 \"abcdefgh\" |", "一二三四五六七八 \"abcdefghij\"|", "一 \"a\" -", "é一 \"lbl\"|", "+--+\r\n|ab|\r\n+--+\r\n", "a\r\nb\r\nc", "*-->\r\n\r\ntext\r\n",
                    "", " ", "\n\n", "   \n  ",
                    // blanks other than the ASCII space at the right and bottom edge occupy no cell
                    "+--+\u{a0}\u{a0}\u{a0}\n|  |\n+--+", "ab\u{3000}", "ab\n\u{2003}\u{2003}\u{2003}", "ab\u{b}", "a\u{2028}", "\u{a0}", "+-+\n\u{a0}\u{a0}\u{a0}\u{a0}\u{a0}", "x\t\t",
                    "ab\u{c}", "ab \u{1680}\u{2000}\u{200a}\u{202f}\u{205f}", "ab\n\u{85}",
                ] {
                    f(Case::s(d));
                }
            },
        ));
        v.push(Scope::new(
            "circle-defects",
            "every catalogue circle with one of its cells blanked (three-quarter, half and quarter arcs), at the page origin and shifted",
            |f| {
                for art in shapes::catalog() {
                    let g: Vec<Vec<char>> = art.split('\n').map(|l| l.chars().collect()).collect();
                    for r in 0..g.len() {
                        for c in 0..g[r].len() {
                            if g[r][c] == ' ' {
                                continue;
                            }
                            let mut h = g.clone();
                            h[r][c] = ' ';
                            let d = h.iter().map(|r| r.iter().collect::<String>()).collect::<Vec<_>>().join("\n");
                            f(Case::s(enumr::shift(&d, 2, 1)));
                            f(Case::s(d));
                        }
                    }
                    // the four halves of the drawing
                    let (w, hh) = enumr::extent(&art);
                    let rows: Vec<Vec<char>> = art.split('\n').map(|l| { let mut v: Vec<char> = l.chars().collect(); while v.len() < w { v.push(' ') } v }).collect();
                    let half = |keep: &dyn Fn(usize, usize) -> bool| -> String {
                        rows.iter().enumerate().map(|(r, row)| row.iter().enumerate().map(|(c, ch)| if keep(c, r) { *ch } else { ' ' }).collect::<String>().trim_end().to_string()).collect::<Vec<_>>().join("\n")
                    };
                    f(Case::s(half(&|c, _r| c >= w / 2)));
                    f(Case::s(half(&|c, _r| c < (w + 1) / 2)));
                    f(Case::s(half(&|_c, r| r >= hh / 2)));
                    f(Case::s(half(&|_c, r| r < (hh + 1) / 2)));
                }
            },
        ));
        v.push(Scope::new(
            "nbhd2",
            "every drawing character (ASCII + unicode tables) with one other at each neighbouring position, placed at the page origin",
            |f| {
                let mut a = shapes::sigma_ascii();
                a.extend(shapes::sigma_uni());
                enumr::nbhd(&a, &a, 1, &mut |s| {
                    // the same two characters moved to the page origin (no blank column / row before them)
                    let rows: Vec<&str> = s.split('\n').skip_while(|r| r.trim().is_empty()).collect();
                    let lead = rows.iter().filter(|r| !r.trim().is_empty()).map(|r| r.chars().take_while(|c| *c == ' ').count()).min().unwrap_or(0);
                    let trimmed: String = rows.iter().map(|r| r.chars().skip(lead).collect::<String>()).collect::<Vec<_>>().join("\n");
                    if trimmed != s {
                        f(Case::s(trimmed));
                    }
                    f(Case::s(s));
                });
            },
        ));
        v.push(Scope::new(
            "label-pairs",
            "a drawing character next to a label / wide / combining character at each neighbouring position",
            |f| {
                let a = shapes::sigma_ascii();
                let l = ['a', 'é', '一', '\u{301}', '"'];
                enumr::nbhd(&a, &l, 1, &mut |s| f(Case::s(s)));
                enumr::nbhd(&l, &a, 1, &mut |s| f(Case::s(s)));
                enumr::nbhd(&l, &l, 1, &mut |s| f(Case::s(s)));
            },
        ));
        if tier == Tier::Thorough {
            v.push(Scope::new(
                "sparse3",
                "all 3x3 grids with at most 3 non-blank cells over the ASCII drawing alphabet",
                |f| {
                    let a = shapes::sigma_ascii();
                    enumr::sparse(&a, 3, 3, 3, &mut |s| f(Case::s(s)));
                },
            ));
            v.push(Scope::new("examples", "bundled example diagrams", |f| {
                for (_n, d) in shapes::bundled_examples() {
                    f(Case::s(d));
                }
            }));
        }
        v
    }
    fn shrinkable(&self, _scope: &str) -> bool {
        true
    }
    fn check(&self, scope: &str, case: &Case, cx: &mut Cx) {
        let input = &case.s;
        let scales: &[f64] = if scope == "sparse3" { &[8.0] } else if scope == "edges" { &[8.0, 0.5, 20.0, 8.8, 1.0] } else { &[8.0, 0.5, 20.0] };
        let has_quote = input.contains('"');
        let has_legend = input.contains("# Legend:");
        let drawn = match refmodel::legend_cut(input) {
            Some(p) => &input[..p],
            None => &input[..],
        };
        for &s in scales {
            let d = match cx.conv_doc(input, &Sett::bare_scale(s as f32)) {
                Some(d) => d,
                None => return,
            };
            cx.compared();
            if s == 8.0 && !d.elems.is_empty() {
                cx.outcome(&(d.skeleton(), d.w as i64, d.h as i64));
            }
            let tol = 1e-3 * s;
            if !has_quote && !has_legend {
                let cells = refmodel::cells(input);
                let (ew, eh) = if cells.is_empty() {
                    (2.0 * s, 4.0 * s)
                } else {
                    let mc = cells.iter().map(|c| c.0 + enumr::char_cols(c.2) - 1).max().unwrap();
                    let mr = cells.iter().map(|c| c.1).max().unwrap();
                    (s * (mc as f64 + 2.0), 2.0 * s * (mr as f64 + 2.0))
                };
                if (d.w - ew).abs() > tol || (d.h - eh).abs() > tol {
                    cx.fail("canvas-formula", format!("scale {}: canvas {}x{} expected {}x{}", s, d.w, d.h, ew, eh));
                    return;
                }
            }
            let rows: Vec<Vec<char>> = refmodel::rows(drawn).iter().map(|r| refmodel::expand(r)).collect();
            for e in &d.elems {
                let (x0, y0, x1, y1) = if e.kind == Kind::Text {
                    let col = (e.xs[0] / s).floor();
                    let row = (e.ys[0] / (2.0 * s)).floor();
                    let cols = enumr::display_cols(&e.text) as f64;
                    (col * s, row * 2.0 * s, (col + cols) * s, (row + 1.0) * 2.0 * s)
                } else {
                    e.bbox()
                };
                if x0 < -tol || y0 < -tol || x1 > d.w + tol || y1 > d.h + tol {
                    let detail = format!(
                        "scale {}: {} has bounding box ({},{})-({},{}) outside the canvas {}x{}",
                        s,
                        e.brief(),
                        x0,
                        y0,
                        x1,
                        y1,
                        d.w,
                        d.h
                    );
                    if e.kind == Kind::Text {
                        let col = (e.xs[0] / s).floor() as usize;
                        let row = (e.ys[0] / (2.0 * s)).floor() as usize;
                        let at_quote = rows.get(row).and_then(|r| r.get(col)).map(|c| *c == '"').unwrap_or(false);
                        // only a text that is itself outside the canvas although every cell to its right is blank is the
                        // known finding; a quoted text followed by an ordinary cell further right must be inside
                        let later_cell = rows.get(row).map(|r| r.iter().skip(col + 1).rev().take_while(|c| **c != '"').any(|c| !c.is_whitespace() && *c != '\0')).unwrap_or(false);
                        if at_quote && has_quote && !later_cell {
                            cx.fail_kf("containment", detail, "c12-quoted-text-not-in-canvas");
                            continue;
                        }
                    }
                    cx.fail("containment", detail);
                    return;
                }
            }
        }
    }
}
