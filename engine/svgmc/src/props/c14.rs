//! C14 — arrowheads, bullets and rounded corners sit and point where the text says.
use crate::conv::Sett;
use crate::runner::{Case, Cx, Prop, Scope, Tier};
use crate::shapes::{self, BoxStyle};
use crate::svg::{self, Doc, El, Kind};

pub struct C14;

/// exact integer coordinates in 1/4 px
fn q(v: f64) -> Option<i64> {
    let x = v * 4.0;
    if (x - x.round()).abs() < 1e-6 {
        Some(x.round() as i64)
    } else {
        None
    }
}

/// bring a rendering made at scale `sc` back to the default scale (every length must have been multiplied by
/// sc/8); coordinates within 5e-4 of the quarter lattice are snapped onto it (f32 printing noise)
fn to_default_scale(d: &mut Doc, sc: f64) {
    if sc == 8.0 {
        return;
    }
    let k = 8.0 / sc;
    let snap = |v: &mut f64| {
        let x = *v * 4.0;
        if (x - x.round()).abs() < 2e-3 {
            *v = x.round() / 4.0
        }
    };
    d.elems = d.elems.iter().map(|e| e.scaled(k)).collect();
    for e in d.elems.iter_mut() {
        e.xs.iter_mut().for_each(snap);
        e.ys.iter_mut().for_each(snap);
    }
}

/// (selector's last class, declarations) of every rule of the style sheet
fn css_rules(style: &str) -> Vec<(String, String)> {
    let mut v = vec![];
    for block in style.split('}') {
        if let Some((sel, body)) = block.split_once('{') {
            for one in sel.split(',') {
                let last = one.trim().rsplit(|c: char| c == ' ' || c == '.').next().unwrap_or("").to_string();
                v.push((last, body.split_whitespace().collect::<Vec<_>>().join(" ")));
            }
        }
    }
    v
}

fn check_marker_resolution(cx: &mut Cx, raw: &str) {
    use crate::xmlmini::{Child, Element};
    let doc = match cx.xml_parse(raw) {
        Ok(d) => d,
        Err(e) => {
            cx.fail("unparseable", format!("{:?}", e));
            return;
        }
    };
    fn kids<'a>(e: &'a Element, name: &str) -> Vec<&'a Element> {
        e.children.iter().filter_map(|c| if let Child::Elem(x) = c { if x.name == name { Some(x) } else { None } } else { None }).collect()
    }
    let attr = |e: &Element, n: &str| e.attrs.iter().find(|a| a.0 == n).map(|a| a.1.clone());
    let style: String = kids(&doc.root, "style").iter().flat_map(|s| s.children.iter()).filter_map(|c| if let Child::Text(t) = c { Some(t.clone()) } else { None }).collect();
    let rules = css_rules(&style);
    let markers: Vec<&Element> = kids(&doc.root, "defs").iter().flat_map(|d| kids(d, "marker")).collect();
    let mut radius: std::collections::BTreeMap<String, f64> = Default::default();
    for kind in ["circle", "open_circle", "big_open_circle", "arrow", "diamond"] {
        for (end, prop) in [("end", "marker-end"), ("start", "marker-start")] {
            let cls = format!("{}_marked_{}", end, kind);
            let body = match rules.iter().find(|r| r.0 == cls) {
                Some(r) => r.1.clone(),
                None => {
                    cx.fail("marker-rule", format!("the style sheet has no rule for class {}", cls));
                    return;
                }
            };
            let want = format!("{}: url(#", prop);
            let id = match body.find(&want) {
                Some(p) => body[p + want.len()..].split(')').next().unwrap_or("").to_string(),
                None => {
                    cx.fail("marker-rule", format!("the rule of class {} does not set {}: {:?}", cls, prop, body));
                    return;
                }
            };
            let m = match markers.iter().find(|m| attr(m, "id").as_deref() == Some(id.as_str())) {
                Some(m) => *m,
                None => {
                    cx.fail("marker-rule", format!("class {} refers to marker #{} which is not defined", cls, id));
                    return;
                }
            };
            let circles = kids(m, "circle");
            let polys = kids(m, "polygon");
            let ok = match kind {
                "arrow" | "diamond" => polys.len() == 1 && circles.is_empty(),
                _ => {
                    if circles.len() != 1 || !polys.is_empty() {
                        false
                    } else {
                        let c = circles[0];
                        let cls_c = attr(c, "class").unwrap_or_default();
                        let filled = cls_c.split_whitespace().any(|t| t == "filled");
                        let r: f64 = attr(c, "r").and_then(|v| v.parse().ok()).unwrap_or(-1.0);
                        radius.insert(format!("{}:{}", end, kind), r);
                        r > 0.0 && (kind == "circle") == filled
                    }
                }
            };
            if !ok {
                cx.fail("marker-kind", format!("class {} resolves to marker #{} which is not a {} marker (filled disc for *, open for o and O, a polygon for arrows)", cls, id, kind));
                return;
            }
        }
    }
    for end in ["end", "start"] {
        let (o, b) = (radius.get(&format!("{}:open_circle", end)).copied().unwrap_or(0.0), radius.get(&format!("{}:big_open_circle", end)).copied().unwrap_or(0.0));
        if !(b > o) {
            cx.fail("marker-kind", format!("the {} marker of the big open bullet 'O' (r={}) is not bigger than that of 'o' (r={})", end, b, o));
            return;
        }
    }
    cx.outcome(&"markers-resolved");
}

fn heads_for(d: u8) -> Vec<char> {
    match d {
        0 => vec!['>', '▶', '►', '▸'],
        4 => vec!['<', '◀', '◄', '◂'],
        6 => vec!['^', '▲', '▴'],
        2 => vec!['v', 'V', '▼', '▾'],
        1 | 3 => vec!['v', 'V'],
        _ => vec!['^'],
    }
}

fn line_chars_for(d: u8) -> Vec<char> {
    match d % 4 {
        0 => vec!['-', '─', '~', '┄'],
        2 => vec!['|', '│', '╎', '┊'],
        1 => vec!['\\'],
        _ => vec!['/'],
    }
}

fn check_arrow(cx: &mut Cx, desc: &str, d: &Doc, dir: u8) {
    let (dx, dy) = shapes::dir_step(dir);
    let polys: Vec<&El> = d.of(Kind::Polygon).collect();
    let lines: Vec<&El> = d.of(Kind::Line).collect();
    let others = d.elems.iter().filter(|e| e.kind != Kind::Polygon && e.kind != Kind::Line).count();
    if polys.len() != 1 || lines.len() != 1 || others != 0 {
        cx.fail(
            "arrow-shape",
            format!("{}: expected one line and one polygon, got [{}]", desc, d.elems.iter().take(6).map(|e| e.brief()).collect::<Vec<_>>().join(" ; ")),
        );
        return;
    }
    let p = polys[0];
    if !p.has_class("filled") {
        cx.fail("arrow-shape", format!("{}: polygon is not filled: {}", desc, p.brief()));
        return;
    }
    let mut pts: Vec<(i64, i64)> = vec![];
    for (x, y) in p.xs.iter().zip(&p.ys) {
        match (q(*x), q(*y)) {
            (Some(a), Some(b)) => {
                if !pts.contains(&(a, b)) {
                    pts.push((a, b))
                }
            }
            _ => {
                cx.fail("arrow-shape", format!("{}: polygon vertex off the quarter lattice: {}", desc, p.brief()));
                return;
            }
        }
    }
    if pts.len() != 3 {
        cx.fail("arrow-shape", format!("{}: polygon has {} distinct vertices: {}", desc, pts.len(), p.brief()));
        return;
    }
    let l = lines[0];
    let (a, b) = match (q(l.xs[0]), q(l.ys[0]), q(l.xs[1]), q(l.ys[1])) {
        (Some(a), Some(b), Some(c), Some(e)) => ((a, b), (c, e)),
        _ => {
            cx.fail("arrow-shape", format!("{}: line off the quarter lattice: {}", desc, l.brief()));
            return;
        }
    };
    // direction of the drawn run in px: a cell is 8 x 16
    let (ux, uy) = (dx as i64 * 8, dy as i64 * 16);
    let proj = |p: (i64, i64)| p.0 * ux + p.1 * uy;
    // the line itself must run along the drawn direction
    let (lx, ly) = (b.0 - a.0, b.1 - a.1);
    if lx * uy - ly * ux != 0 || (lx, ly) == (0, 0) {
        cx.fail("arrow-axis", format!("{}: the line {} does not run in the drawn direction", desc, l.brief()));
        return;
    }
    let far = if proj(a) > proj(b) { a } else { b };
    let tip = *pts.iter().max_by_key(|p| proj(**p)).unwrap();
    let base: Vec<(i64, i64)> = pts.iter().filter(|p| **p != tip).cloned().collect();
    let cross = |p: (i64, i64)| (p.0 - a.0) * uy - (p.1 - a.1) * ux;
    if cross(tip) != 0 {
        cx.fail("arrow-tip-off-axis", format!("{}: tip ({},{})/4 of {} is not on the axis of {}", desc, tip.0, tip.1, p.brief(), l.brief()));
        return;
    }
    if proj(tip) <= proj(far) {
        cx.fail("arrow-tip-not-beyond", format!("{}: tip of {} does not lie beyond the end of {}", desc, p.brief(), l.brief()));
        return;
    }
    let (c1, c2) = (cross(base[0]), cross(base[1]));
    if !((c1 > 0 && c2 < 0) || (c1 < 0 && c2 > 0)) {
        cx.fail("arrow-base", format!("{}: the base of {} does not straddle the axis of {}", desc, p.brief(), l.brief()));
        return;
    }
    // it points away: both base vertices are behind the tip
    if base.iter().any(|b| proj(*b) >= proj(tip)) {
        cx.fail("arrow-base", format!("{}: base vertex of {} is not behind its tip", desc, p.brief()));
    }
}

fn check_bullet(cx: &mut Cx, desc: &str, d: &Doc, bullet: char, cell: (i32, i32)) {
    let kind = match bullet {
        '*' => "circle",
        'o' => "open_circle",
        _ => "big_open_circle",
    };
    if d.of(Kind::Text).any(|t| t.text.contains(bullet)) {
        cx.fail("bullet-as-text", format!("{}: the bullet is shown as text", desc));
        return;
    }
    let centre = (8.0 * cell.0 as f64 + 4.0, 16.0 * cell.1 as f64 + 8.0);
    let marked: Vec<&El> = d.of(Kind::Line).filter(|l| l.is_marked()).collect();
    if marked.len() != 1 {
        cx.fail(
            "bullet-marker",
            format!("{}: expected exactly one marked line, got [{}]", desc, d.elems.iter().take(6).map(|e| e.brief()).collect::<Vec<_>>().join(" ; ")),
        );
        return;
    }
    let m = marked[0];
    let end_cls = format!("end_marked_{}", kind);
    let start_cls = format!("start_marked_{}", kind);
    let ok = (m.has_class(&end_cls) && (m.xs[1], m.ys[1]) == centre) || (m.has_class(&start_cls) && (m.xs[0], m.ys[0]) == centre);
    let marks = m.cls.iter().filter(|c| c.contains("_marked_")).count();
    if !ok || marks != 1 {
        cx.fail(
            "bullet-marker",
            format!("{}: marked line {} does not carry exactly the {} marker at the centre ({},{}) of the bullet's cell", desc, m.brief(), kind, centre.0, centre.1),
        );
        return;
    }
    if d.elems.iter().any(|e| !matches!(e.kind, Kind::Line)) {
        cx.fail("bullet-marker", format!("{}: unexpected elements [{}]", desc, d.elems.iter().filter(|e| e.kind != Kind::Line).take(4).map(|e| e.brief()).collect::<Vec<_>>().join(" ; ")));
    }
}

fn check_outline(cx: &mut Cx, desc: &str, d: &Doc, ox: usize, oy: usize, w: usize, h: usize) {
    let left = 8.0 * ox as f64 + 4.0;
    let right = 8.0 * (ox + w + 1) as f64 + 4.0;
    let top = 16.0 * oy as f64 + 8.0;
    let bottom = 16.0 * (oy + h + 1) as f64 + 8.0;
    let (bcx, bcy) = ((left + right) / 2.0, (top + bottom) / 2.0);
    let arcs: Vec<&El> = d.of(Kind::Path).collect();
    let lines: Vec<&El> = d.of(Kind::Line).collect();
    if arcs.len() != 4 || d.count(Kind::Rect) != 0 {
        cx.fail(
            "outline-arcs",
            format!("{}: expected 4 corner arcs and no rect, got [{}]", desc, d.elems.iter().take(10).map(|e| e.brief()).collect::<Vec<_>>().join(" ; ")),
        );
        return;
    }
    for a in &arcs {
        let (sx, sy, ex, ey) = (a.xs[0], a.ys[0], a.xs[1], a.ys[1]);
        for (px, py) in [(sx, sy), (ex, ey)] {
            let n = lines
                .iter()
                .filter(|l| (l.xs[0], l.ys[0]) == (px, py) || (l.xs[1], l.ys[1]) == (px, py))
                .count();
            if n != 1 {
                cx.fail(
                    "outline-continuity",
                    format!("{}: end point ({},{}) of {} coincides with the end of {} lines (expected exactly one)", desc, px, py, a.brief(), n),
                );
                return;
            }
        }
        if a.lens[0] != a.lens[1] {
            cx.fail("outline-arcs", format!("{}: elliptical arc {}", desc, a.brief()));
            return;
        }
        let (ccx, ccy, r) = svg::arc_center(sx, sy, ex, ey, a.lens[0], a.flags[1] == 1, a.flags[2] == 1);
        // centre on the inner side: inside the outline's rectangle
        let inside = ccx > left - 1e-6 && ccx < right + 1e-6 && ccy > top - 1e-6 && ccy < bottom + 1e-6;
        // the arc's mid point bulges outward: farther from the outline's centre than the chord's mid point
        let a0 = (sy - ccy).atan2(sx - ccx);
        let a1 = (ey - ccy).atan2(ex - ccx);
        let tau = std::f64::consts::PI * 2.0;
        let sweep = a.flags[2] == 1;
        let mut delta = if sweep { a1 - a0 } else { a0 - a1 };
        while delta < 0.0 {
            delta += tau
        }
        let mid_ang = if sweep { a0 + delta / 2.0 } else { a0 - delta / 2.0 };
        let (mx, my) = (ccx + r * mid_ang.cos(), ccy + r * mid_ang.sin());
        let (chx, chy) = ((sx + ex) / 2.0, (sy + ey) / 2.0);
        let dist = |x: f64, y: f64| ((x - bcx).powi(2) + (y - bcy).powi(2)).sqrt();
        if !inside || dist(mx, my) <= dist(chx, chy) || a.flags[1] == 1 {
            cx.fail(
                "outline-convexity",
                format!("{}: {} has its centre at ({:.2},{:.2}) and mid point ({:.2},{:.2}); it does not bulge outward from the outline [{},{}]-[{},{}]", desc, a.brief(), ccx, ccy, mx, my, left, top, right, bottom),
            );
            return;
        }
    }
}

/// every arc: both end points meet exactly one line end; the centre lies inside the box; the arc bulges away from the box centre
fn check_arcs_convex(cx: &mut Cx, desc: &str, d: &Doc, left: f64, top: f64, right: f64, bottom: f64) {
    let (bcx, bcy) = ((left + right) / 2.0, (top + bottom) / 2.0);
    let lines: Vec<&El> = d.of(Kind::Line).collect();
    for a in d.of(Kind::Path) {
        let (sx, sy, ex, ey) = (a.xs[0], a.ys[0], a.xs[1], a.ys[1]);
        for (px, py) in [(sx, sy), (ex, ey)] {
            let n = lines.iter().filter(|l| (l.xs[0], l.ys[0]) == (px, py) || (l.xs[1], l.ys[1]) == (px, py)).count();
            if n != 1 {
                cx.fail("outline-continuity", format!("{}: end point ({},{}) of {} coincides with the end of {} lines (expected exactly one)", desc, px, py, a.brief(), n));
                return;
            }
        }
        let (ccx, ccy, r) = svg::arc_center(sx, sy, ex, ey, a.lens[0], a.flags[1] == 1, a.flags[2] == 1);
        let inside = ccx > left - 1e-6 && ccx < right + 1e-6 && ccy > top - 1e-6 && ccy < bottom + 1e-6;
        let a0 = (sy - ccy).atan2(sx - ccx);
        let a1 = (ey - ccy).atan2(ex - ccx);
        let tau = std::f64::consts::PI * 2.0;
        let sweep = a.flags[2] == 1;
        let mut delta = if sweep { a1 - a0 } else { a0 - a1 };
        while delta < 0.0 {
            delta += tau
        }
        let mid_ang = if sweep { a0 + delta / 2.0 } else { a0 - delta / 2.0 };
        let (mx, my) = (ccx + r * mid_ang.cos(), ccy + r * mid_ang.sin());
        let (chx, chy) = ((sx + ex) / 2.0, (sy + ey) / 2.0);
        let dist = |x: f64, y: f64| ((x - bcx).powi(2) + (y - bcy).powi(2)).sqrt();
        if !inside || dist(mx, my) <= dist(chx, chy) || a.flags[1] == 1 {
            cx.fail("outline-convexity", format!("{}: {} has its centre at ({:.2},{:.2}) and mid point ({:.2},{:.2}); it does not bulge outward from the outline [{},{}]-[{},{}]", desc, a.brief(), ccx, ccy, mx, my, left, top, right, bottom));
            return;
        }
    }
}

const CORNERS: [(char, char, char, char); 5] = [('.', '.', '\'', '\''), (',', '.', '\'', '\''), ('.', '.', '`', '\''), (',', '.', '`', '\''), ('╭', '╮', '╰', '╯')];

impl Prop for C14 {
    fn id(&self) -> &'static str {
        "C14"
    }
    fn rule(&self) -> &'static str {
        "arrows: 8 directions x every head glyph valid for the direction x line character variants x length 1..12 (thorough 40) x offsets; bullets {*,o,O} x 8 directions x {at the end, mid-line} x length 1..8 (thorough 20); \
         rounded outlines w 1..10 x h 1..6 (thorough 30 x 15) x 4 corner styles x a one-cell horizontal stub on the left or right side at every row, attached to the bar or through a '+' junction (so the outline is not endorsed as a rect). \
         Oracles in exact integer arithmetic: one filled triangle whose tip is on the line's axis beyond its end and whose base straddles the axis; one marked line whose marked end is the centre of the bullet's cell, bullet not shown as text; \
         four arcs whose end points each meet exactly one line end, whose centre lies inside the outline and which bulge outward. distinct_nontrivial = distinct (family, direction/style, glyph) outcomes that passed"
    }
    fn scopes(&self, tier: Tier, _seed: u64) -> Vec<Scope> {
        let (la, lb, mw, mh) = if tier == Tier::Quick { (12usize, 8usize, 10usize, 6usize) } else { (40, 20, 30, 15) };
        let offs: Vec<(i64, i64)> = if tier == Tier::Quick {
            vec![(0, 0), (2, 1)]
        } else {
            let mut v = vec![];
            for a in 0..3 {
                for b in 0..3 {
                    v.push((a, b));
                }
            }
            v
        };
        let offs2 = offs.clone();
        let offs3 = offs.clone();
        let (ww, wh) = if tier == Tier::Quick { (8usize, 4usize) } else { (20, 10) };
        let offs4 = offs.clone();
        vec![
            Scope::new("wide-outlines", "rounded outlines in the wide style (corner characters one column inside the bars, radius of a whole cell) w x h x corner style x stub side x stub row", move |f| {
                for w in 1..=ww {
                    for h in 1..=wh {
                        for cs in 0..4 {
                            for side in 0..2 {
                                for row in 0..h {
                                    let (ox, oy) = offs4[(w + h + row) % offs4.len()];
                                    f(Case::sn("wide", vec![w as i64, h as i64, cs as i64, side, row as i64, ox + 1, oy]));
                                }
                            }
                        }
                    }
                }
            }),
            Scope::new("arrows", "direction x head glyph x line character x length x offset", move |f| {
                for d in 0..8u8 {
                    for (hi, _) in heads_for(d).iter().enumerate() {
                        for (li, _) in line_chars_for(d).iter().enumerate() {
                            for l in 1..=la {
                                for &(ox, oy) in &offs {
                                    f(Case::sn("arrow", vec![d as i64, hi as i64, li as i64, l as i64, ox, oy]));
                                }
                                if d % 2 == 0 && l <= 6 {
                                    f(Case::sn("arrow", vec![d as i64, hi as i64, li as i64, l as i64, 2, 2, 1]));
                                }
                            }
                        }
                    }
                }
            }),
            Scope::new("markers", "with the style sheet and marker definitions on (default settings, three entry points): every start_/end_marked_ class resolves through its CSS rule (marker-start / marker-end) to a defined marker of the documented kind: filled disc for *, open disc for o, bigger open disc for O, polygons for arrow and diamond", |f| {
                for i in 0..4 {
                    for e in 0..3 {
                        f(Case::sn("markers", vec![i, e]));
                    }
                }
            }),
            Scope::new("scaled", "arrows (direction x head glyph x line character x length 1,2,5) and bullets (kind x direction x {end, mid-line} x length 1,3) at scales 1, 2.5, 3, 5, 7, 10, 20: the same oracles after dividing every length by scale/8", |f| {
                for sc in [100i64, 250, 300, 500, 700, 1000, 2000] {
                    for d in 0..8u8 {
                        for (hi, _) in heads_for(d).iter().enumerate() {
                            for (li, _) in line_chars_for(d).iter().enumerate() {
                                for l in [1i64, 2, 5] {
                                    f(Case::sn("arrow", vec![d as i64, hi as i64, li as i64, l, 1, 1, 0, sc]));
                                }
                            }
                        }
                        for b in 0..3 {
                            for mid in 0..2 {
                                for l in [1i64, 3] {
                                    f(Case::sn("bullet", vec![b, d as i64, mid, l, 1, 1, sc]));
                                }
                            }
                        }
                    }
                }
            }),
            Scope::new("bullets-on-dashed", "bullet x the four axis directions x {end, mid-line} x length 1..6 x every line character of the direction incl. the dashed ones (~ ┄ ╎ ┊)", |f| {
                for b in 0..3 {
                    for d in [0u8, 2, 4, 6] {
                        for mid in 0..2 {
                            for l in 1..=6i64 {
                                for li in 0..line_chars_for(d).len() {
                                    f(Case::sn("bullet", vec![b, d as i64, mid, l, 1, 1, 800, li as i64]));
                                }
                            }
                        }
                    }
                }
            }),
            Scope::new("bullets", "bullet x direction x {end, mid-line} x length x offset", move |f| {
                for b in 0..3 {
                    for d in 0..8u8 {
                        for mid in 0..2 {
                            for l in 1..=lb {
                                for &(ox, oy) in &offs2 {
                                    f(Case::sn("bullet", vec![b, d as i64, mid, l as i64, ox, oy]));
                                }
                            }
                        }
                    }
                }
            }),
            Scope::new("outlines", "rounded outline w x h x corner style x stub side x stub row x offset", move |f| {
                for w in 1..=mw {
                    for h in 1..=mh {
                        for cs in 0..CORNERS.len() {
                            for side in 0..2 {
                                for row in 0..h {
                                    let (ox, oy) = offs3[(w + h + row) % offs3.len()];
                                    for junction in 0..2 {
                                        f(Case::sn("outline", vec![w as i64, h as i64, cs as i64, side, row as i64, ox + 1, oy, junction]));
                                    }
                                }
                            }
                        }
                    }
                }
            }),
        ]
    }
    fn check(&self, _scope: &str, case: &Case, cx: &mut Cx) {
        let n = &case.n;
        match case.s.as_str() {
            "markers" => {
                let inputs = ["O--  o--  *--", "--O  --o  --*\n\n-->  <--", "|\nO\n|", ""];
                let raw = match cx.conv_entry(inputs[n[0] as usize], &Sett::default_(), [crate::conv::Entry::ToSvg, crate::conv::Entry::WithSettings, crate::conv::Entry::Pretty][n[1] as usize]) {
                    Some(o) => o,
                    None => return,
                };
                cx.compared();
                check_marker_resolution(cx, &raw);
            }
            "arrow" => {
                let d = n[0] as u8;
                let head = heads_for(d)[n[1] as usize];
                let lc = line_chars_for(d)[n[2] as usize];
                let len = n[3] as usize;
                let mut cv = shapes::line_with_head(d, lc, len, head);
                // optionally something connectable stands right in front of the tip (the head must still be drawn)
                let target = n.get(6).copied().unwrap_or(0);
                if target > 0 {
                    let (dx, dy) = shapes::dir_step(d);
                    let (tx, ty) = (dx * (len as i32 + 1), dy * (len as i32 + 1));
                    cv.put(tx, ty, '+');
                    // a bar through the '+', perpendicular to the arrow
                    if dx != 0 && dy == 0 {
                        cv.put(tx, ty - 1, '|');
                        cv.put(tx, ty + 1, '|');
                    } else if dx == 0 {
                        cv.put(tx - 1, ty, '-');
                        cv.put(tx + 1, ty, '-');
                    }
                }
                let drawing = cv.render_at(n[4] as i32, n[5] as i32);
                let sc = n.get(7).map(|v| *v as f64 / 100.0).unwrap_or(8.0);
                let mut doc = match cx.conv_doc(&drawing, &Sett::bare_scale(sc as f32)) {
                    Some(x) => x,
                    None => return,
                };
                to_default_scale(&mut doc, sc);
                cx.compared();
                let nv = cx.viols.len();
                let desc = format!("arrow {:?} after {} x {:?} in direction {} at ({},{}) scale {}\n{}", head, len, lc, d, n[4], n[5], sc, drawing);
                if target > 0 {
                    // the bar adds lines: only demand the filled triangle, not shown as text, tip on the axis of the arriving line
                    let polys = doc.count(Kind::Polygon);
                    let as_text = doc.of(Kind::Text).any(|t| t.text.contains(head));
                    if polys != 1 || as_text {
                        cx.fail("arrow-shape", format!("{}: an arrow head pointing at a junction must still be one filled polygon; got {} polygons, shown as text: {}", desc, polys, as_text));
                    }
                } else {
                    check_arrow(cx, &desc, &doc, d);
                }
                if cx.viols.len() == nv {
                    cx.outcome(&("arrow", d, head, lc));
                }
            }
            "bullet" => {
                let b = ['*', 'o', 'O'][n[0] as usize];
                let d = n[1] as u8;
                let mid = n[2] == 1;
                let len = n[3] as usize;
                let (dx, dy) = shapes::dir_step(d);
                let lc = n.get(7).map(|i| line_chars_for(d)[*i as usize]).unwrap_or_else(|| shapes::dir_line_char(d));
                let mut cv = shapes::line_with_head(d, lc, len, b);
                if mid {
                    for i in 1..=len as i32 {
                        cv.put(dx * (len as i32 + i), dy * (len as i32 + i), lc);
                    }
                }
                // position of the bullet cell after normalising the canvas to the offset
                let cells: Vec<(i32, i32)> = (0..=(if mid { 2 * len } else { len }) as i32).map(|i| (dx * i, dy * i)).collect();
                let minx = cells.iter().map(|c| c.0).min().unwrap();
                let miny = cells.iter().map(|c| c.1).min().unwrap();
                let bc = (dx * len as i32 - minx + n[4] as i32, dy * len as i32 - miny + n[5] as i32);
                let drawing = cv.render_at(n[4] as i32, n[5] as i32);
                let sc = n.get(6).map(|v| *v as f64 / 100.0).unwrap_or(8.0);
                let mut doc = match cx.conv_doc(&drawing, &Sett::bare_scale(sc as f32)) {
                    Some(x) => x,
                    None => return,
                };
                to_default_scale(&mut doc, sc);
                cx.compared();
                let nv = cx.viols.len();
                let desc = format!("bullet {:?} {} a line of {} x {:?} in direction {} at ({},{}) scale {}\n{}", b, if mid { "in the middle of" } else { "at the end of" }, len, lc, d, n[4], n[5], sc, drawing);
                check_bullet(cx, &desc, &doc, b, bc);
                if cx.viols.len() == nv {
                    cx.outcome(&("bullet", b, d, mid));
                }
            }
            "wide" => {
                // corners one column inside the bars:  .--.   /  |    |  /  '--'  with bars at columns ox and ox+w+3
                let (w, h, cs, side, row, ox, oy) = (n[0] as usize, n[1] as usize, n[2] as usize, n[3], n[4] as usize, n[5] as usize, n[6] as usize);
                let (tl, tr, bl, br) = CORNERS[cs];
                let mut cv = shapes::Canvas::new();
                cv.put(ox as i32 + 1, oy as i32, tl);
                cv.put((ox + w + 2) as i32, oy as i32, tr);
                cv.put(ox as i32 + 1, (oy + h + 1) as i32, bl);
                cv.put((ox + w + 2) as i32, (oy + h + 1) as i32, br);
                for x in 0..w {
                    cv.put((ox + 2 + x) as i32, oy as i32, '-');
                    cv.put((ox + 2 + x) as i32, (oy + h + 1) as i32, '-');
                }
                for y in 0..h {
                    cv.put(ox as i32, (oy + 1 + y) as i32, '|');
                    cv.put((ox + w + 3) as i32, (oy + 1 + y) as i32, '|');
                }
                if side == 0 {
                    cv.put(ox as i32 - 1, (oy + 1 + row) as i32, '-');
                } else {
                    cv.put((ox + w + 4) as i32, (oy + 1 + row) as i32, '-');
                }
                let body = cv.render();
                let minx = if side == 0 { ox - 1 } else { ox };
                let drawing = crate::enumr::shift(&body, minx, oy);
                let doc = match cx.conv_doc(&drawing, &Sett::bare()) {
                    Some(x) => x,
                    None => return,
                };
                cx.compared();
                // the statement only speaks about corners that ARE arcs: every arc must be continuous and convex
                let arcs: Vec<&El> = doc.of(Kind::Path).collect();
                if arcs.is_empty() {
                    cx.tally("wide outline drawn without arcs (skipped)");
                    return;
                }
                let nv = cx.viols.len();
                let desc = format!("wide rounded outline {}x{} corners {}{}{}{} with a stub on side {} row {} at ({},{})\n{}", w, h, tl, tr, bl, br, side, row, ox, oy, drawing);
                check_arcs_convex(cx, &desc, &doc, 8.0 * ox as f64 + 4.0, 16.0 * oy as f64 + 8.0, 8.0 * (ox + w + 3) as f64 + 4.0, 16.0 * (oy + h + 1) as f64 + 8.0);
                if cx.viols.len() == nv {
                    cx.outcome(&("wide", cs, side, arcs.len()));
                }
            }
            _ => {
                let (w, h, cs, side, row, ox, oy) = (n[0] as usize, n[1] as usize, n[2] as usize, n[3], n[4] as usize, n[5] as usize, n[6] as usize);
                let (tl, tr, bl, br) = CORNERS[cs];
                let uni = tl == '╭';
                let st = BoxStyle { tl, tr, bl, br, hor: if uni { '─' } else { '-' }, ver: if uni { '│' } else { '|' } };
                let rows = shapes::box_rows(&st, w, h, None, &[]);
                let mut cv = shapes::Canvas::new();
                for (r, l) in rows.iter().enumerate() {
                    cv.text(ox as i32, (oy + r) as i32, l);
                }
                let junction = n.get(7).copied().unwrap_or(0) == 1;
                let stub = if uni { '─' } else { '-' };
                if side == 0 {
                    cv.put(ox as i32 - 1, (oy + 1 + row) as i32, stub);
                    if junction || uni {
                        cv.put(ox as i32, (oy + 1 + row) as i32, if uni { '┤' } else { '+' });
                    }
                } else {
                    cv.put((ox + w + 2) as i32, (oy + 1 + row) as i32, stub);
                    if junction || uni {
                        cv.put((ox + w + 1) as i32, (oy + 1 + row) as i32, if uni { '├' } else { '+' });
                    }
                }
                // render with absolute coordinates: pad rows/columns
                let body = cv.render();
                let minx = if side == 0 { ox - 1 } else { ox };
                let drawing = crate::enumr::shift(&body, minx, oy);
                let doc = match cx.conv_doc(&drawing, &Sett::bare()) {
                    Some(x) => x,
                    None => return,
                };
                cx.compared();
                let nv = cx.viols.len();
                let desc = format!("rounded outline {}x{} corners {}{}{}{} with a stub on side {} row {} at ({},{})\n{}", w, h, tl, tr, bl, br, side, row, ox, oy, drawing);
                check_outline(cx, &desc, &doc, ox, oy, w, h);
                if cx.viols.len() == nv {
                    cx.outcome(&("outline", cs, side, w.min(3), h.min(3)));
                }
            }
        }
    }
}
