//! C16 — legend entries become CSS rules and {tags} style the enclosing shape.
use crate::conv::Sett;
use crate::runner::{Case, Cx, Prop, Scope, Tier};
use crate::shapes;
use crate::svg::{self, Doc, El, Kind};

pub struct C16;

const IDENTS: [&str; 4] = ["a", "b1", "_x", "Ab_9"];
const DECLS: [&str; 6] = ["fill:red", "stroke: blue; fill: none", "font: 12px \"Arial\", 'x'; a:#fff", "x:1;\ny:2", "w: calc(1.5 - 2),(3)", ""];
const DIAGRAMS: [&str; 5] = ["", "+--+\n|  |\n+--+\n", "some text\n", "┌──┐\n│é │\n└──┘\n", "一二 café 𝔘\n"];
const HEADERS: [&str; 2] = ["# Legend:", "  # Legend:  "];

fn entry(i: usize) -> (String, String) {
    (IDENTS[i % 4].to_string(), DECLS[i / 4].to_string())
}

/// what may follow the closing brace of the LAST entry on its line; every entry starts a line, so its rule must still appear
const TAILS: [&str; 4] = ["", ";", " // note", " x"];

fn legend_doc(diagram: &str, header: &str, entries: &[usize], lead: bool, trailing: usize) -> (String, Vec<(String, String)>) {
    if trailing >= 10 {
        // variant: a tail after the last entry's closing brace
        let (mut lf, rules) = legend_doc(diagram, header, entries, false, 0);
        if !entries.is_empty() {
            lf.push_str(TAILS[(trailing - 10) % TAILS.len()]);
        }
        let _ = lead;
        return (lf, rules);
    }
    // lead == true now selects CRLF line endings for the whole document (entries always start at column 0)
    if lead {
        let (lf, rules) = legend_doc(diagram, header, entries, false, trailing);
        return (lf.replace('\n', "\r\n"), rules);
    }
    let mut s = String::from(diagram);
    s.push_str(header);
    let mut rules = vec![];
    for e in entries {
        let (n, d) = entry(*e);
        s.push('\n');
        s.push_str(&format!("{} = {{{}}}", n, d));
        rules.push((n, d));
    }
    for _ in 0..trailing {
        s.push('\n');
    }
    (s, rules)
}

fn check_legend(cx: &mut Cx, case: &Case) {
    let diagram = DIAGRAMS[case.n[0] as usize];
    let header = HEADERS[case.n[1] as usize];
    let lead = case.n[2] == 1;
    let trailing = case.n[3] as usize;
    let entries: Vec<usize> = case.n[4..].iter().map(|x| *x as usize).collect();
    let (input, rules) = legend_doc(diagram, header, &entries, lead, trailing);
    let sett = Sett { backdrop: false, defs: false, styles: true, ..Sett::default_() };
    let base = match cx.conv_doc(diagram, &sett) {
        Some(d) => d,
        None => return,
    };
    let d = match cx.conv_doc(&input, &sett) {
        Some(d) => d,
        None => return,
    };
    cx.compared();
    let s0 = base.style.clone().unwrap_or_default();
    let want_style = format!(
        "{}{}",
        s0,
        rules.iter().map(|(n, dd)| format!(".svgbob .{}{{ {} }}", n, dd)).collect::<Vec<_>>().join("\n")
    );
    let got = d.style.clone().unwrap_or_default().replace("\r\n", "\n").replace('\r', "\n");
    if got != want_style {
        let tail = |t: &str| t.chars().skip(s0.chars().count().saturating_sub(10)).collect::<String>();
        cx.fail(
            "legend-rules",
            format!("input {:?}: style sheet after the built-in part is {:?}, expected {:?}", input, tail(&got), tail(&want_style)),
        );
        return;
    }
    if d.elems != base.elems || d.w != base.w || d.h != base.h || d.groups != base.groups {
        cx.fail(
            "legend-drawn",
            format!(
                "input {:?}: the legend changes the drawing: canvas {}x{} vs {}x{}, elements [{}] vs diagram alone [{}]",
                input,
                d.w,
                d.h,
                base.w,
                base.h,
                d.elems.iter().take(6).map(|e| e.brief()).collect::<Vec<_>>().join(" ; "),
                base.elems.iter().take(6).map(|e| e.brief()).collect::<Vec<_>>().join(" ; ")
            ),
        );
        return;
    }
    cx.outcome(&(rules.len(), case.n[0], got.len()));
}

/// shapes for the tag space: (name, drawing with a blank interior)
fn tag_shapes() -> Vec<(&'static str, String)> {
    let cat = shapes::catalog();
    vec![
        ("sharp-box", shapes::boxed(&shapes::SHARP, 7, 2)),
        ("rounded-box", shapes::boxed(&shapes::box_styles()[2].1, 7, 2)),
        ("circle", cat[12].clone()),
        ("box-in-box", "+-------------+\n|             |\n| +-------+   |\n| |       |   |\n| +-------+   |\n|             |\n+-------------+".to_string()),
        ("two-boxes-in-box", "+-----------------+\n|                 |\n| +-----+ +-----+ |\n| |     | |     | |\n| +-----+ +-----+ |\n|                 |\n+-----------------+".to_string()),
        ("box-with-text-in-box", "+--------------+\n| note         |\n| +-----+      |\n| |     |      |\n| +-----+      |\n+--------------+".to_string()),
        ("three-deep", "+---------------------+\n|                     |\n| +-----------------+ |\n| |                 | |\n| | +-------------+ | |\n| | |             | | |\n| | +-------------+ | |\n| |                 | |\n| +-----------------+ |\n|                     |\n+---------------------+".to_string()),
        ("box-in-circle", {
            // the largest catalogue circle with a small box inside
            let mut cv = shapes::Canvas::new();
            cv.paste(0, 0, &cat[21]);
            let (w, h) = crate::enumr::extent(&cat[21]);
            let (bx, by) = ((w / 2) as i32 - 4, (h / 2) as i32 - 1);
            cv.paste(bx, by, "+------+\n|      |\n+------+");
            cv.render()
        }),
    ]
}

const TAGS: [&str; 6] = ["{a}", "{b1}", "{a,b}", "{Ab9}", "{zz9}", "{}"];

fn tag_names(tag: &str) -> Vec<String> {
    tag.trim_matches(|c| c == '{' || c == '}').split(',').map(|s| s.to_string()).collect()
}

fn grid(s: &str) -> Vec<Vec<char>> {
    let rows: Vec<Vec<char>> = s.split('\n').map(|l| l.chars().collect()).collect();
    let w = rows.iter().map(|r| r.len()).max().unwrap_or(0);
    rows.into_iter()
        .map(|mut r| {
            while r.len() < w + 12 {
                r.push(' ');
            }
            r
        })
        .collect()
}

fn strip_tag_classes(e: &El, names: &[String]) -> El {
    let mut e = e.clone();
    e.cls.retain(|c| !names.contains(c));
    e
}

fn check_tag(cx: &mut Cx, case: &Case) {
    let shapes_ = tag_shapes();
    let (sname, drawing) = &shapes_[case.n[0] as usize];
    let tag = TAGS[case.n[1] as usize];
    let (col, row) = (case.n[2] as usize, case.n[3] as usize);
    let word = case.n[4] == 1;
    let mut g = grid(drawing);
    while g.len() <= row {
        let w = g[0].len();
        g.push(vec![' '; w]);
    }
    let text: String = if word { format!("{} hi", tag) } else { tag.to_string() };
    // the place must be blank, with a blank on either side
    let len = text.chars().count();
    if col + len + 1 > g[row].len() || (col > 0 && g[row][col - 1] != ' ' && g[row][col - 1] != '|') {
        return;
    }
    for i in 0..len {
        if g[row][col + i] != ' ' {
            return;
        }
    }
    let render = |g: &Vec<Vec<char>>| -> String { g.iter().map(|r| r.iter().collect::<String>().trim_end().to_string()).collect::<Vec<_>>().join("\n") };
    let mut with_word = g.clone();
    if word {
        for (i, ch) in " hi".chars().enumerate() {
            with_word[row][col + tag.chars().count() + i] = ch;
        }
    }
    let blank_input = render(&with_word);
    let mut gt = with_word.clone();
    for (i, ch) in tag.chars().enumerate() {
        gt[row][col + i] = ch;
    }
    let input = render(&gt);
    let base = match cx.conv_doc(&blank_input, &Sett::bare()) {
        Some(d) => d,
        None => return,
    };
    let d: Doc = match cx.conv_doc(&input, &Sett::bare()) {
        Some(d) => d,
        None => return,
    };
    cx.compared();
    let names = tag_names(tag);
    if tag == "{}" {
        // no names: not a tag, stays ordinary text wherever it stands
        let mut want = base.elems.clone();
        want.push(El { kind: Kind::Text, cls: vec![], group: None, xs: vec![8.0 * col as f64 + 2.0], ys: vec![16.0 * row as f64 + 12.0], lens: vec![], flags: vec![], text: tag.to_string() });
        let (a, b) = svg::multiset_diff(&want, &d.elems, 1e-9);
        if !a.is_empty() || !b.is_empty() {
            cx.fail("non-tag-text-changed", format!("'{{}}' at column {} row {} of {} is not a tag and must stay ordinary text: missing [{}] extra [{}]\n{}", col, row, sname,
                a.iter().take(4).map(|e| e.brief()).collect::<Vec<_>>().join(" ; "), b.iter().take(4).map(|e| e.brief()).collect::<Vec<_>>().join(" ; "), input));
        } else {
            cx.outcome(&("empty-braces", case.n[0]));
        }
        return;
    }
    // text box of the tag in px: anchored at Q, the library tests the span from the anchor
    let (tx0, ty) = (8.0 * col as f64 + 2.0, 16.0 * row as f64 + 12.0);
    let tx1 = 8.0 * (col + tag.chars().count()) as f64;
    // the shapes (rect / circle) of the tag-less rendering whose bounding box contains the tag
    let mut enclosing: Vec<(f64, usize)> = vec![];
    for (i, e) in base.elems.iter().enumerate() {
        if e.kind == Kind::Rect || e.kind == Kind::Circle {
            let (x0, y0, x1, y1) = e.bbox();
            if x0 <= tx0 && y0 <= ty - 12.0 && x1 >= tx1 && y1 >= ty + 4.0 {
                enclosing.push(((x1 - x0) * (y1 - y0), i));
            }
        }
    }
    enclosing.sort_by(|a, b| a.0.partial_cmp(&b.0).unwrap());
    let desc = format!("tag {} at column {} row {} of {}{}\n{}", tag, col, row, sname, if word { " with a word beside it" } else { "" }, input);
    // inside the bounding box of some non-shape element (a line of the outline…)? then the statement says nothing: skip
    let tag_text_left = d.of(Kind::Text).any(|t| t.text.contains('{'));
    if enclosing.is_empty() {
        // partly inside / touching the border of a shape's bounding box: the statement does not decide these
        let touches_any = base.elems.iter().any(|e| {
            let (x0, y0, x1, y1) = e.bbox();
            e.kind != Kind::Text && !(x1 < tx0 - 2.0 || x0 > tx1 + 2.0 || y1 < ty - 12.0 || y0 > ty + 4.0)
        });
        if touches_any {
            cx.tally("tag-partly-inside-a-bounding-box-skipped");
            return;
        }
        // ordinary text, nothing else changes
        let mut want = base.elems.clone();
        want.push(El { kind: Kind::Text, cls: vec![], group: None, xs: vec![tx0], ys: vec![ty], lens: vec![], flags: vec![], text: tag.to_string() });
        let (a, b) = svg::multiset_diff(&want, &d.elems, 1e-9);
        if !a.is_empty() || !b.is_empty() {
            cx.fail("tag-outside", format!("{}: a tag outside every shape must stay ordinary text: missing [{}] extra [{}]", desc,
                a.iter().take(4).map(|e| e.brief()).collect::<Vec<_>>().join(" ; "), b.iter().take(4).map(|e| e.brief()).collect::<Vec<_>>().join(" ; ")));
        } else {
            cx.outcome(&("outside", case.n[0], case.n[1]));
        }
        return;
    }
    let target = enclosing[0].1;
    if tag_text_left {
        cx.fail("tag-still-text", format!("{}: the tag is still rendered as text: [{}]", desc, d.of(Kind::Text).map(|e| e.brief()).collect::<Vec<_>>().join(" ; ")));
        return;
    }
    // expected: base with the names added to the target shape
    let mut want = base.elems.clone();
    for nme in &names {
        if !want[target].cls.contains(nme) {
            want[target].cls.push(nme.clone());
        }
    }
    want[target].cls.sort();
    let (a, b) = svg::multiset_diff(&want, &d.elems, 1e-9);
    if !a.is_empty() || !b.is_empty() {
        // distinguish "class on the wrong shape" from geometry changes
        let geo_same = {
            let x: Vec<El> = base.elems.iter().map(|e| strip_tag_classes(e, &names)).collect();
            let y: Vec<El> = d.elems.iter().map(|e| strip_tag_classes(e, &names)).collect();
            let (p, q) = svg::multiset_diff(&x, &y, 1e-9);
            p.is_empty() && q.is_empty()
        };
        cx.fail(
            if geo_same { "tag-wrong-shape" } else { "tag-changes-rendering" },
            format!("{}: expected the class on {} and nothing else changed: missing [{}] extra [{}]", desc, base.elems[target].brief(),
                a.iter().take(4).map(|e| e.brief()).collect::<Vec<_>>().join(" ; "), b.iter().take(4).map(|e| e.brief()).collect::<Vec<_>>().join(" ; ")),
        );
        return;
    }
    cx.outcome(&("inside", case.n[0], case.n[1], enclosing.len()));
}

impl Prop for C16 {
    fn id(&self) -> &'static str {
        "C16"
    }
    fn rule(&self) -> &'static str {
        "legend: header in {'# Legend:', '  # Legend:  '} x all sequences of up to 2 (thorough 3) entries from 24 (4 identifiers x 6 declaration strings with spaces, ;:#-.,() quotes, a newline, and the empty declaration) \
         plus chains of 4, 5, 6 entries, all starting at column 0 (the grammar, like the statement, only accepts entries that start a line) x {LF, CRLF} x 0..2 trailing blank lines x {no diagram, a box, text} above: the style element is the built-in sheet followed in order by '.svgbob .name{ decls }' rules, \
         and canvas and elements equal the diagram alone. tags: 8 shapes (three boxes nested in each other, sharp box, rounded box, circle, box in box, two sibling boxes in a box, a box below a line of text in a box, box in circle) x 5 tags x every position of the page grid where the tag fits on blanks \
         x {alone, with a word beside it}: inside a shape's bounding box the innermost rect/circle gains exactly the names and nothing else changes and the tag is gone; outside every bounding box it stays text. \
         distinct_nontrivial = distinct (rule count, diagram) and (inside/outside, shape, tag) outcomes that passed"
    }
    fn assumptions(&self) -> Vec<String> {
        vec![
            "tag names consist of letters and digits without drawing letters; a tag that lies only partly inside / on the border of an element's bounding box is not decided by the statement and is skipped (counted)".into(),
            "the legend is introduced by the literal '# Legend:'".into(),
        ]
    }
    fn scopes(&self, tier: Tier, _seed: u64) -> Vec<Scope> {
        let maxseq = if tier == Tier::Quick { 2 } else { 3 };
        vec![
            Scope::new("legend", "diagram x header x leading blanks x trailing blank lines x entry sequence", move |f| {
                for dg in 0..DIAGRAMS.len() as i64 {
                    for hd in 0..2i64 {
                        for lead in 0..2i64 {
                            for tr in [0i64, 1, 2, 11, 12, 13] {
                                // sequences of length 0..maxseq
                                let mut seqs: Vec<Vec<i64>> = vec![vec![]];
                                let mut layer: Vec<Vec<i64>> = vec![vec![]];
                                for _ in 0..maxseq {
                                    let mut next = vec![];
                                    for s in &layer {
                                        for e in 0..24i64 {
                                            let mut t = s.clone();
                                            t.push(e);
                                            next.push(t);
                                        }
                                    }
                                    seqs.extend(next.iter().cloned());
                                    layer = next;
                                    if tier == Tier::Quick && (dg + hd + lead + tr) % 3 != 0 && layer[0].len() >= 2 {
                                        break;
                                    }
                                }
                                for chain in [4, 5, 6] {
                                    seqs.push((0..chain).map(|i| ((i * 7 + 3) % 24) as i64).collect());
                                }
                                for s in seqs {
                                    let mut n = vec![dg, hd, lead, tr];
                                    n.extend(s);
                                    f(Case::sn("legend", n));
                                }
                            }
                        }
                    }
                }
            }),
            Scope::new("tags", "shape x tag x column x row x {alone, with a word}", |f| {
                for (si, (_n, d)) in tag_shapes().iter().enumerate() {
                    let (w, h) = crate::enumr::extent(d);
                    for ti in 0..TAGS.len() {
                        for row in 0..h + 2 {
                            for col in 0..w + 6 {
                                for word in 0..2 {
                                    f(Case::sn("tag", vec![si as i64, ti as i64, col as i64, row as i64, word]));
                                }
                            }
                        }
                    }
                }
            }),
        ]
    }
    fn check(&self, _scope: &str, case: &Case, cx: &mut Cx) {
        if case.s == "legend" {
            check_legend(cx, case)
        } else {
            check_tag(cx, case)
        }
    }
}
