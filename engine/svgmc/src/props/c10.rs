//! C10 — separated sub-diagrams render independently of each other.
use crate::conv::Sett;
use crate::enumr;
use crate::runner::{Case, Cx, Prop, Scope, Tier};
use crate::shapes;
use crate::svg::{self, Doc, El};

pub struct C10;

/// the component set: every shape family at a few sizes, words, CJK, quoted text
pub fn components() -> Vec<String> {
    let mut v: Vec<String> = vec![];
    for (n, d) in shapes::family_samples(9) {
        let keep = n.starts_with("box:")
            && (n.ends_with("2x1") || n.ends_with("8x3"))
            || n.starts_with("circle:") && ["circle:0", "circle:3", "circle:6", "circle:11", "circle:17"].contains(&n.as_str())
            || n.starts_with("run:") && (n.ends_with(":3") || n.ends_with(":9")) && !n.contains('═') && !n.contains('┄')
            || n.starts_with("arrow:") && n.ends_with(":3") && (n.contains(":>:") || n.contains(":v:") || n.contains(":^:") || n.contains(":<:") || n.contains(":▲:"))
            || n.starts_with("bullet:") && n.ends_with(":4") && n.contains(":*:")
            || n.starts_with("outline:4x2")
            || ["nested", "words", "cjk", "quoted", "mixed"].contains(&n.as_str());
        if keep {
            v.push(d);
        }
    }
    // many separate pieces on every row (more spans than any fixed look-back window)
    let many: String = (0..40).map(|i| char::from(b'a' + (i % 26) as u8).to_string()).collect::<Vec<_>>().join(" ");
    v.push(format!("{}\n{}\n{}", many, many, many));
    // a catalogue circle with something attached (a tail, a label): rendered at several places in one document
    v.push(" .-.\n(   )---\n `-'".into());
    v.push("  .--.\n ( ab )-->\n  `--'".into());
    // quoted text with a zero-width character (blanking width)
    v.push("\"e\u{301}tat\" x\n+--+\n|  |\n+--+".into());
    v.push("\"in|out\"".into());
    v.push("\"-->\" x".into());
    v.push("- - -".into());
    v.push("- - - -\n  |".into());
    v.push("-->".into());
    v.push("Hello 中".into());
    v.push("()()".into());
    v.push(" ()()".into());
    v.push("()\n()".into());
    v.push("一".into());
    v.push("|".into());
    v.push("a".into());
    v.push("+".into());
    v.push("*".into());
    v.push("_".into());
    v.push(".-\n| ".into());
    v.push("/\\\n\\/".into());
    v
}

fn render(cx: &mut Cx, s: &str) -> Option<Doc> {
    cx.conv_doc(s, &Sett::bare())
}

fn expect_union(cx: &mut Cx, what: &str, parts: &[(&Doc, f64, f64)], joint: &Doc, cw: f64, ch: f64) {
    cx.compared();
    let mut want: Vec<El> = vec![];
    let mut groups = 0;
    for (d, dx, dy) in parts {
        want.extend(d.elems.iter().map(|e| e.translated(*dx, *dy)));
        groups += d.groups;
    }
    let (oa, ob) = svg::multiset_diff(&want, &joint.elems, 1e-3 * 8.0);
    if !oa.is_empty() || !ob.is_empty() {
        cx.fail(
            "union",
            format!(
                "{}: separately rendered parts give [{}] not in the joint rendering; joint rendering has extra [{}]",
                what,
                oa.iter().take(6).map(|e| e.brief()).collect::<Vec<_>>().join(" ; "),
                ob.iter().take(6).map(|e| e.brief()).collect::<Vec<_>>().join(" ; ")
            ),
        );
        return;
    }
    if groups != joint.groups {
        cx.fail("groups", format!("{}: parts have {} groups, joint rendering {}", what, groups, joint.groups));
    }
    if (joint.w - cw).abs() > 1e-6 || (joint.h - ch).abs() > 1e-6 {
        cx.fail("canvas", format!("{}: canvas {}x{} expected {}x{}", what, joint.w, joint.h, cw, ch));
    }
}

const BLANKS: [char; 5] = ['\u{a0}', '\u{2003}', '\u{2007}', '\u{202f}', '\u{3000}'];

fn nonblank(s: &str) -> bool {
    s.chars().any(|c| !c.is_whitespace())
}

impl Prop for C10 {
    fn id(&self) -> &'static str {
        "C10"
    }
    fn rule(&self) -> &'static str {
        "all ordered pairs (and triples of a subset) of the component set are placed side by side and stacked with gaps 1..3; \
         all ordered pairs of 2x2 grids over {space,-,|,+,/} (a complete slice in the quick tier); the joint rendering must be the \
         multiset union of the separately rendered parts, shifted, with the groups and canvas of the bounding placement. \
         distinct_nontrivial = distinct skeletons of joint renderings with elements from both parts"
    }
    fn assumptions(&self) -> Vec<String> {
        vec!["components are legend-free, tag-free and contain no unbalanced quote, except in the lone-quote scope where the piece with the unpaired quote never stands to the left of another quote on its row (quotes pair per row from the left by design)".into()]
    }
    fn scopes(&self, tier: Tier, seed: u64) -> Vec<Scope> {
        let mut v = vec![];
        v.push(Scope::new(
            "pairs",
            "all ordered pairs of components x {beside, below, below with B indented by 1 or 2 columns, beside with A lowered by 1 or 2 rows} x gap 1..3",
            |f| {
                let k = components();
                for a in 0..k.len() {
                    for b in 0..k.len() {
                        for layout in [0i64, 1, 3, 4, 5, 6] {
                            for gap in 1..=3 {
                                if layout >= 3 && gap == 3 {
                                    continue;
                                }
                                f(Case::snx("", vec![layout, gap], vec![k[a].clone(), k[b].clone()]));
                            }
                        }
                    }
                }
            },
        ));
        v.push(Scope::new(
            "lone-quote",
            "every component with a one-row piece holding an unpaired quote (5\" , \" , x\" y): the piece to the right of the component (gaps 1..3; quotes pair from the left, so the unpaired one stays literal), and above or below it",
            |f| {
                let k = components();
                for a in 0..k.len() {
                    for b in ["5\"", "\"", "x\" y"] {
                        for gap in 1..=3 {
                            f(Case::snx("", vec![0, gap], vec![k[a].clone(), b.to_string()]));
                        }
                        f(Case::snx("", vec![1, 1], vec![k[a].clone(), b.to_string()]));
                        f(Case::snx("", vec![1, 1], vec![b.to_string(), k[a].clone()]));
                        f(Case::snx("", vec![3, 1], vec![b.to_string(), k[a].clone()]));
                    }
                }
            },
        ));
        v.push(Scope::new(
            "blank-kinds",
            "a subset of the components side by side and stacked, the gap made of no-break spaces, em spaces, figure spaces, narrow no-break spaces or ideographic spaces (two columns wide) instead of ASCII spaces, gaps 1..3",
            |f| {
                let k = components();
                let sub: Vec<&String> = k.iter().step_by(5).collect();
                for a in &sub {
                    for b in &sub {
                        for (bi, _) in BLANKS.iter().enumerate() {
                            for gap in 1..=3 {
                                f(Case::snx("", vec![7, gap, bi as i64], vec![(*a).clone(), (*b).clone()]));
                                f(Case::snx("", vec![8, gap, bi as i64], vec![(*a).clone(), (*b).clone()]));
                            }
                        }
                    }
                }
            },
        ));
        let ntr = if tier == Tier::Quick { 8 } else { 15 };
        v.push(Scope::new(
            "triples",
            "all ordered triples of a component subset, A beside B, C below both, gap 1",
            move |f| {
                let k = components();
                let step = (k.len() / ntr).max(1);
                let sub: Vec<&String> = k.iter().step_by(step).take(ntr).collect();
                for a in &sub {
                    for b in &sub {
                        for c in &sub {
                            f(Case::snx("", vec![2, 1], vec![(*a).clone(), (*b).clone(), (*c).clone()]));
                        }
                    }
                }
            },
        ));
        let nsl: u64 = if tier == Tier::Quick { 16 } else { 1 };
        let sl = seed % nsl;
        v.push(Scope::new(
            &format!("grid2x2-pairs[{}/{}]", sl, nsl),
            "all ordered pairs of non-blank 2x2 grids over {space,-,|,+,/} x {beside, below}, gap 1 (quick: the seed-selected 1/16 slice of the first component)",
            move |f| {
                let alpha = [' ', '-', '|', '+', '/'];
                let mut all: Vec<String> = vec![];
                enumr::grids(&alpha, 2, 2, &mut |g| all.push(g));
                for (i, a) in all.iter().enumerate() {
                    if i as u64 % nsl != sl || !nonblank(a) {
                        continue;
                    }
                    for b in &all {
                        if !nonblank(b) {
                            continue;
                        }
                        for layout in 0..2 {
                            f(Case::snx("", vec![layout, 1], vec![a.clone(), b.clone()]));
                        }
                    }
                }
            },
        ));
        v
    }
    fn check(&self, _scope: &str, case: &Case, cx: &mut Cx) {
        let layout = case.n[0];
        let gap = case.n[1] as usize;
        let a = &case.x[0];
        let b = &case.x[1];
        let (da, db) = match (render(cx, a), render(cx, b)) {
            (Some(x), Some(y)) => (x, y),
            _ => return,
        };
        let s = 8.0;
        let canvas = |parts: &[(&str, usize, usize)]| -> (f64, f64) {
            // canvas of the bounding placement: max over parts of their own extent
            let mut mw = 0usize;
            let mut mh = 0usize;
            for (p, ox, oy) in parts {
                // occupied extent of the part: its own canvas minus the margin
                let mut maxc = 0usize;
                let mut maxr = 0usize;
                for (r, l) in p.split('\n').enumerate() {
                    let mut col = 0;
                    for c in l.chars() {
                        if !c.is_whitespace() {
                            maxc = maxc.max(col + ox + enumr::char_cols(c));
                            maxr = maxr.max(r + oy + 1);
                        }
                        col += enumr::char_cols(c);
                    }
                }
                mw = mw.max(maxc);
                mh = mh.max(maxr);
            }
            (s * (mw as f64 + 1.0), 2.0 * s * (mh as f64 + 1.0))
        };
        let has_quote = |p: &str| p.contains('"');
        if layout == 2 {
            let c = &case.x[2];
            let dc = match render(cx, c) {
                Some(x) => x,
                None => return,
            };
            let (ab, off) = enumr::beside(a, b, gap);
            let (abc, offy) = enumr::below(&ab, c, gap);
            let joint = match render(cx, &abc) {
                Some(x) => x,
                None => return,
            };
            let (mut cw, mut ch) = canvas(&[(a, 0, 0), (b, off, 0), (c, 0, offy)]);
            if has_quote(a) || has_quote(b) || has_quote(c) {
                cw = joint.w;
                ch = joint.h;
            }
            expect_union(
                cx,
                "A beside B above C",
                &[(&da, 0.0, 0.0), (&db, off as f64 * s, 0.0), (&dc, 0.0, offy as f64 * 2.0 * s)],
                &joint,
                cw,
                ch,
            );
            if da.elems.len() > 0 && db.elems.len() > 0 && dc.elems.len() > 0 {
                cx.outcome(&joint.skeleton());
            }
            return;
        }
        if layout == 7 || layout == 8 {
            let blank = BLANKS[case.n[2] as usize];
            let bw = enumr::char_cols(blank);
            let (wa, ha) = enumr::extent(a);
            let (j, ox, oy) = if layout == 7 {
                // side by side: every row of A padded with ASCII spaces to A's width, then the gap of special blanks, then B's row
                let la: Vec<&str> = a.split('\n').collect();
                let lb: Vec<&str> = b.split('\n').collect();
                let n = la.len().max(lb.len());
                let mut rows = vec![];
                for i in 0..n {
                    let ra = la.get(i).copied().unwrap_or("");
                    let rb = lb.get(i).copied().unwrap_or("");
                    if rb.is_empty() {
                        rows.push(ra.to_string());
                    } else {
                        rows.push(format!("{}{}{}{}", ra, " ".repeat(wa - enumr::display_cols(ra)), blank.to_string().repeat(gap), rb));
                    }
                }
                (rows.join("\n"), wa + gap * bw, 0usize)
            } else {
                // stacked: the rows between A and B hold special blanks only
                let mut rows: Vec<String> = a.split('\n').map(|x| x.to_string()).collect();
                for _ in 0..gap {
                    rows.push(blank.to_string().repeat(3));
                }
                rows.extend(b.split('\n').map(|x| x.to_string()));
                (rows.join("\n"), 0usize, ha + gap)
            };
            let joint = match render(cx, &j) {
                Some(x) => x,
                None => return,
            };
            let (mut cw, mut ch) = canvas(&[(a, 0, 0), (b, ox, oy)]);
            if has_quote(a) || has_quote(b) {
                cw = joint.w;
                ch = joint.h;
            }
            expect_union(cx, &format!("A and B separated by U+{:04X} blanks ({})", blank as u32, if layout == 7 { "side by side" } else { "stacked" }),
                &[(&da, 0.0, 0.0), (&db, ox as f64 * s, oy as f64 * 2.0 * s)], &joint, cw, ch);
            if !da.elems.is_empty() && !db.elems.is_empty() {
                cx.outcome(&joint.skeleton());
            }
            return;
        }
        let (joint_s, dx, dy, ox, oy) = if layout == 0 {
            let (j, off) = enumr::beside(a, b, gap);
            (j, off as f64 * s, 0.0, off, 0)
        } else if layout == 1 {
            let (j, off) = enumr::below(a, b, gap);
            (j, 0.0, off as f64 * 2.0 * s, 0, off)
        } else if layout >= 5 {
            // side by side with A lowered by 1 or 2 rows (layout 5, 6): B extends above A
            let low = (layout - 4) as usize;
            let al = enumr::shift(a, 0, low);
            let (j, off) = enumr::beside(&al, b, gap);
            let joint = match render(cx, &j) {
                Some(x) => x,
                None => return,
            };
            let (mut cw, mut ch) = canvas(&[(a, 0, low), (b, off, 0)]);
            if has_quote(a) || has_quote(b) {
                cw = joint.w;
                ch = joint.h;
            }
            expect_union(cx, "A (lowered) beside B", &[(&da, 0.0, low as f64 * 2.0 * s), (&db, off as f64 * s, 0.0)], &joint, cw, ch);
            if !da.elems.is_empty() && !db.elems.is_empty() {
                cx.outcome(&joint.skeleton());
            }
            return;
        } else {
            // stacked with B indented by 1 or 2 columns (layout 3, 4)
            let ind = (layout - 2) as usize;
            let bi = enumr::shift(b, ind, 0);
            let (j, off) = enumr::below(a, &bi, gap);
            (j, ind as f64 * s, off as f64 * 2.0 * s, ind, off)
        };
        let joint = match render(cx, &joint_s) {
            Some(x) => x,
            None => return,
        };
        let (mut cw, mut ch) = canvas(&[(a, 0, 0), (b, ox, oy)]);
        if has_quote(a) || has_quote(b) {
            // quoted text is not part of the canvas computation (see C12); only compare elements
            cw = joint.w;
            ch = joint.h;
        }
        expect_union(
            cx,
            if layout == 0 { "A beside B" } else if layout == 1 { "A above B" } else { "A above B (B indented)" },
            &[(&da, 0.0, 0.0), (&db, dx, dy)],
            &joint,
            cw,
            ch,
        );
        if !da.elems.is_empty() && !db.elems.is_empty() {
            cx.outcome(&joint.skeleton());
        }
    }
}
