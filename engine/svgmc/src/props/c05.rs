//! C05 — rectangles are recognised completely, and only where a box is drawn.
use crate::conv::Sett;
use crate::enumr;
use crate::runner::{Case, Cx, Prop, Scope, Tier};
use crate::shapes::{self, BoxStyle};
use crate::svg::{Doc, Kind};

pub struct C05;

/// interior variants: 0 = empty, odd = a word flush with the left wall, even = flush with the right wall
const WORDS: [&str; 5] = ["a", "ok", "no", "Oslo", "v2"];
const INTERIORS: i64 = 1 + 2 * WORDS.len() as i64;

const SBOX: [char; 11] = [' ', '-', '|', '+', '.', '\'', '`', ',', '~', ':', '!'];

fn is_corner(c: char) -> bool {
    matches!(c, '+' | '.' | ',' | '\'' | '`' | '┌' | '┐' | '└' | '┘' | '╭' | '╮' | '╰' | '╯' | '┼' | '├' | '┤' | '┬' | '┴')
}
fn carries_h(c: char) -> bool {
    matches!(c, '-' | '~' | '+' | '─' | '┄' | '═' | '┬' | '┴' | '┼' | '━') || matches!(c, '.' | ',' | '\'' | '`')
}
fn carries_v(c: char) -> bool {
    matches!(c, '|' | ':' | '!' | '+' | '│' | '╎' | '┊' | '┆' | '├' | '┤' | '┼' | '┃')
}

/// soundness: every emitted non-filled rect must coincide with border characters
pub fn check_soundness(cx: &mut Cx, input: &str, d: &Doc) {
    let g: Vec<Vec<char>> = input.split('\n').map(|l| crate::refmodel::expand(l)).collect();
    let at = |c: i64, r: i64| -> char {
        if c < 0 || r < 0 {
            return ' ';
        }
        g.get(r as usize).and_then(|row| row.get(c as usize)).copied().unwrap_or(' ')
    };
    for e in d.of(Kind::Rect) {
        if e.has_class("filled") {
            continue;
        }
        cx.tally("rects-checked-for-soundness");
        let (x, y, w, h) = (e.xs[0], e.ys[0], e.lens[0], e.lens[1]);
        let c0 = (x - 4.0) / 8.0;
        let r0 = (y - 8.0) / 16.0;
        let c1 = (x + w - 4.0) / 8.0;
        let r1 = (y + h - 8.0) / 16.0;
        if [c0, r0, c1, r1].iter().any(|v| v.fract() != 0.0) {
            cx.fail("rect-unsound", format!("{} does not lie on cell mid-lines", e.brief()));
            continue;
        }
        let (c0, r0, c1, r1) = (c0 as i64, r0 as i64, c1 as i64, r1 as i64);
        let mut bad: Vec<String> = vec![];
        for (c, r) in [(c0, r0), (c1, r0), (c0, r1), (c1, r1)] {
            if !is_corner(at(c, r)) {
                bad.push(format!("corner cell ({},{}) holds {:?}", c, r, at(c, r)));
            }
        }
        for c in (c0 + 1)..c1 {
            for r in [r0, r1] {
                // a '|' flanked by '-' or '~' on both sides carries the edge through its two half stubs
                let bar_between_dashes = at(c, r) == '|' && matches!(at(c - 1, r), '-' | '~') && matches!(at(c + 1, r), '-' | '~');
                if !carries_h(at(c, r)) && !bar_between_dashes {
                    bad.push(format!("horizontal edge cell ({},{}) holds {:?}", c, r, at(c, r)));
                }
            }
        }
        for r in (r0 + 1)..r1 {
            for c in [c0, c1] {
                if !carries_v(at(c, r)) {
                    bad.push(format!("vertical edge cell ({},{}) holds {:?}", c, r, at(c, r)));
                }
            }
        }
        if !bad.is_empty() {
            cx.fail(
                "rect-unsound",
                format!("{} was emitted but no box is drawn there: {}", e.brief(), bad.into_iter().take(4).collect::<Vec<_>>().join("; ")),
            );
        }
    }
}

fn side_patterns(h: usize, maxh_full: usize) -> Vec<Vec<char>> {
    let mut v = vec![];
    if h == 0 {
        return vec![vec![]];
    }
    if h <= maxh_full {
        enumr::strings_exact(&['|', ':', '!'], h, &mut |s| {
            if s.contains(&'|') {
                v.push(s.to_vec());
            }
        });
    } else {
        v.push(vec!['|'; h]);
        // one dashed stretch of length 1..3 at every position, bars elsewhere
        for len in 1..=3usize {
            for start in 0..=(h - len) {
                for ch in [':', '!'] {
                    let mut s = vec!['|'; h];
                    for i in start..start + len {
                        s[i] = ch;
                    }
                    v.push(s);
                }
            }
        }
    }
    v
}

fn style_by_index(i: usize) -> (&'static str, BoxStyle) {
    shapes::box_styles()[i]
}

impl Prop for C05 {
    fn id(&self) -> &'static str {
        "C05"
    }
    fn rule(&self) -> &'static str {
        "completeness: every box of 13 styles (4 of them mixing ASCII and box-drawing border characters) x inner width 0..12 (thorough 0..60) x inner height 0..6 (thorough 0..30) x offsets x interiors {empty, each of the words a / ok / no / Oslo / v2 flush with the left wall and flush with the right wall} \
         x side patterns (all strings over {|,:,!} with at least one '|' for h<=4 (thorough 6), else one dashed stretch at every position) must be exactly one rect with the predicted x,y,width,height,rx,class and nothing but the interior labels; \
         soundness: every non-filled rect in every output of these families, of all grids over the 11 box characters of 2x3 and 3x2 (quick: one seed-selected 1/16 slice), all 3x3 grids over {space,-,|,+}, \
         and boxes with 1 (thorough 2) replaced cells must have corner characters at its corners and edge-carrying characters along all four edges. \
         distinct_nontrivial = distinct (style, rect) outcomes / output skeletons containing a rect"
    }
    fn assumptions(&self) -> Vec<String> {
        vec![
            "rounded styles start at inner width 1 and the style with ',' directly over an apostrophe at inner height 1 (adjacent corner characters have no line between them to connect to; see DESIGN.md C05)".into(),
            "a side consisting only of ':'/'!' is text by design (the dashed characters need a solid vertical neighbour), so side patterns contain at least one '|'".into(),
            "corner characters are admitted inside horizontal edges in the soundness rule ('+.+' over '| |' over '+-+' really draws the top edge)".into(),
        ]
    }
    fn shrinkable(&self, scope: &str) -> bool {
        !scope.starts_with("boxes")
    }
    fn scopes(&self, tier: Tier, seed: u64) -> Vec<Scope> {
        let mut v = vec![];
        let (mw, mh, full) = if tier == Tier::Quick { (12usize, 6usize, 3usize) } else { (60, 30, 6) };
        let offs: Vec<(usize, usize)> = if tier == Tier::Quick { vec![(0, 0), (3, 2)] } else { vec![(0, 0), (1, 0), (0, 1), (3, 2), (17, 9)] };
        let offs2 = offs.clone();
        v.push(Scope::new(
            "boxes",
            "style x w x h x offset x interior; plain sides",
            move |f| {
                for si in 0..shapes::box_styles().len() {
                    for w in 0..=mw {
                        for h in 0..=mh {
                            for (oi, _) in offs.iter().enumerate() {
                                for interior in 0..INTERIORS {
                                    if interior > 0 && (w == 0 || h == 0) {
                                        continue;
                                    }
                                    f(Case::sn("", vec![si as i64, w as i64, h as i64, offs[oi].0 as i64, offs[oi].1 as i64, interior, 0]));
                                }
                            }
                        }
                    }
                }
            },
        ));
        v.push(Scope::new(
            "boxes-sides",
            "ASCII styles x w in {0,1,4} x h x side patterns over {|,:,!} (same pattern on both sides, and the mirrored pattern on the right)",
            move |f| {
                for si in [0usize, 2] {
                    for w in [0usize, 1, 4] {
                        for h in 1..=mh.min(12) {
                            let pats = side_patterns(h, full);
                            for (pi, _p) in pats.iter().enumerate() {
                                for mirror in 0..2 {
                                    f(Case::sn("", vec![si as i64, w as i64, h as i64, offs2[0].0 as i64, offs2[0].1 as i64, 0, 1 + pi as i64 * 2 + mirror]));
                                }
                            }
                        }
                    }
                }
            },
        ));
        let nsl: u64 = if tier == Tier::Quick { 16 } else { 1 };
        let sl = seed % nsl;
        for (w, h) in [(2usize, 3usize), (3, 2)] {
            v.push(Scope::new(
                &format!("gridbox-{}x{}[{}/{}]", w, h, sl, nsl),
                "grids over {space,-,|,+,.,',`,,,~,:,!} (slice = seed mod slices, complete)",
                move |f| enumr::grids_slice(&SBOX, w, h, sl, nsl, &mut |g| f(Case::s(g))),
            ));
        }
        v.push(Scope::new(
            "nested-and-wide",
            "boxes nested 2..5 deep with gaps 1..2 (every box exactly one rect), and boxes whose label (plain or in double quotes) or left neighbour contains a double-width character",
            |f| {
                for depth in 2..=5usize {
                    for gap in 1..=2usize {
                        f(Case::sn("nested", vec![depth as i64, gap as i64]));
                    }
                }
                for label in ["一", "一二", "a一", "一a", "é一b", "\"一\"", "\"a一\"", "\"一a\""] {
                    for pos in 0..3 {
                        f(Case::snx("wide", vec![pos], vec![label.to_string()]));
                    }
                }
            },
        ));
        v.push(Scope::new(
            "rails-and-rungs",
            "two parallel rails of length 3..9 joined by two rungs at every pair of positions, rails overhanging the rungs on either or both sides, in both orientations, gaps 1..3",
            |f| {
                for l in 3..=9usize {
                    for i in 0..l {
                        for j in (i + 1)..l {
                            for gap in 1..=3usize {
                                // horizontal rails, vertical rungs
                                let mut rows: Vec<Vec<char>> = vec![vec!['-'; l]];
                                for _ in 0..gap {
                                    let mut r = vec![' '; l];
                                    r[i] = '|';
                                    r[j] = '|';
                                    rows.push(r);
                                }
                                rows.push(vec!['-'; l]);
                                rows[0][i] = '+';
                                rows[0][j] = '+';
                                let last = rows.len() - 1;
                                rows[last][i] = '+';
                                rows[last][j] = '+';
                                let h: String = rows.iter().map(|r| r.iter().collect::<String>().trim_end().to_string()).collect::<Vec<_>>().join("\n");
                                f(Case::s(h));
                                // transposed: vertical rails, horizontal rungs
                                let mut t: Vec<Vec<char>> = vec![vec![' '; gap + 2]; l];
                                for (y, row) in t.iter_mut().enumerate() {
                                    row[0] = '|';
                                    row[gap + 1] = '|';
                                    if y == i || y == j {
                                        row[0] = '+';
                                        row[gap + 1] = '+';
                                        for x in 1..=gap {
                                            row[x] = '-';
                                        }
                                    }
                                }
                                f(Case::s(t.iter().map(|r| r.iter().collect::<String>()).collect::<Vec<_>>().join("\n")));
                            }
                        }
                    }
                }
            },
        ));
        v.push(Scope::new(
            "udashed-boxes",
            "box-drawing styles (sharp and rounded corners) x inner width {1,4} x inner height 1..4 x top/bottom edges of '─' or '┄' x every side pattern over {│,╎,┊,┆} (same on both sides, and mirrored on the right): one rect, class broken exactly when a dashed character is on the border",
            |f| {
                for si in [7i64, 8] {
                    for w in [1i64, 4] {
                        for h in 1..=4usize {
                            for hor in 0..2i64 {
                                enumr::strings_exact(&['│', '╎', '┊', '┆'], h, &mut |p| {
                                    for mirror in 0..2i64 {
                                        f(Case::snx("", vec![si, w, h as i64, hor, mirror], vec![p.iter().collect::<String>()]));
                                    }
                                });
                            }
                        }
                    }
                }
            },
        ));
        v.push(Scope::new(
            "long-gapped",
            "sharp boxes of inner width 100..260 with one cell of the top or bottom edge blank (at both ends, next to them and in the middle), and of inner height 100..140 with one cell of a side blank: no rect may be emitted over the gap",
            |f| {
                for w in [100usize, 101, 104, 128, 200, 260] {
                    for bottom in [false, true] {
                        for g in [1usize, 2, 3, w / 2, w - 1, w] {
                            let mut rows: Vec<Vec<char>> = shapes::box_rows(&shapes::SHARP, w, 2, None, &[]).iter().map(|r| r.chars().collect()).collect();
                            let r = if bottom { rows.len() - 1 } else { 0 };
                            rows[r][g] = ' ';
                            f(Case::s(rows.iter().map(|r| r.iter().collect::<String>()).collect::<Vec<_>>().join("\n")));
                        }
                    }
                }
                for h in [100usize, 110, 140] {
                    for right in [false, true] {
                        for g in [1usize, 2, h / 2, h - 1, h] {
                            let mut rows: Vec<Vec<char>> = shapes::box_rows(&shapes::SHARP, 3, h, None, &[]).iter().map(|r| r.chars().collect()).collect();
                            let c = if right { 4 } else { 0 };
                            rows[g][c] = ' ';
                            f(Case::s(rows.iter().map(|r| r.iter().collect::<String>().trim_end().to_string()).collect::<Vec<_>>().join("\n")));
                        }
                    }
                }
            },
        ));
        let big_w: Vec<usize> = if tier == Tier::Quick { (1..=8).chain([16, 31, 32, 33, 47, 48, 49, 64, 90, 128]).collect() } else { (1..=140).collect() };
        let big_h: Vec<usize> = if tier == Tier::Quick { vec![1, 3, 16, 47, 48, 70] } else { (1..=72).collect() };
        v.push(Scope::new("large-near-boxes", "sharp boxes of inner width up to 128 (thorough: every width to 140) and inner height up to 70 whose two horizontal edges overhang one side by one cell, or whose two sides overhang the top or the bottom by one row: four touching lines that are not a closed outline, at every size (a tolerance that grows with the drawing shows only on large ones)", move |f| {
            for &w in &big_w {
                for &h in &big_h {
                    if w > 8 && h > 3 && !(w >= 47 && h >= 47) {
                        continue;
                    }
                    let edge = format!("+{}+", "-".repeat(w));
                    let side = format!("|{}|", " ".repeat(w));
                    let bars = format!("|{}|", " ".repeat(w));
                    // horizontal edges overhang on the left / on the right
                    let mut rows: Vec<String> = vec![format!("-{}", edge)];
                    rows.extend((0..h).map(|_| format!(" {}", side)));
                    rows.push(format!("-{}", edge));
                    f(Case::s(rows.join("\n")));
                    let mut rows: Vec<String> = vec![format!("{}-", edge)];
                    rows.extend((0..h).map(|_| side.clone()));
                    rows.push(format!("{}-", edge));
                    f(Case::s(rows.join("\n")));
                    // sides overhang above / below
                    let mut rows: Vec<String> = vec![bars.clone(), edge.clone()];
                    rows.extend((0..h).map(|_| side.clone()));
                    rows.push(edge.clone());
                    f(Case::s(rows.join("\n")));
                    let mut rows: Vec<String> = vec![edge.clone()];
                    rows.extend((0..h).map(|_| side.clone()));
                    rows.push(edge.clone());
                    rows.push(bars.clone());
                    f(Case::s(rows.join("\n")));
                }
            }
        }));
        v.push(Scope::new("grid4-3x3", "all 3x3 grids over {space,-,|,+}", |f| {
            enumr::grids(&[' ', '-', '|', '+'], 3, 3, &mut |g| f(Case::s(g)))
        }));
        let d = if tier == Tier::Quick { 1 } else { 2 };
        v.push(Scope::new(
            &format!("box-defects-{}", d),
            "boxes up to 6x4 (sharp) with up to d cells of the box or its surround replaced by any of the 11 box characters",
            move |f| {
                let (mw, mh) = if d == 1 { (6, 4) } else { (4, 2) };
                super::c03::box_defects(&SBOX, mw, mh, d, &mut |g| f(Case::s(g)))
            },
        ));
        if tier == Tier::Thorough {
            v.push(Scope::new("sparse-box-4x4-5", "all 4x4 grids with at most 5 non-blank cells over {-,|,+,.,'}", |f| {
                enumr::sparse(&['-', '|', '+', '.', '\''], 4, 4, 5, &mut |g| f(Case::s(g)))
            }));
        }
        v
    }
    fn check(&self, scope: &str, case: &Case, cx: &mut Cx) {
        if scope == "nested-and-wide" {
            let s8 = 8.0;
            if case.s == "nested" {
                let (depth, gap) = (case.n[0] as usize, case.n[1] as usize);
                let mut cv = shapes::Canvas::new();
                let mut want: Vec<(f64, f64, f64, f64)> = vec![];
                for k in 0..depth {
                    let off = k * (gap + 1);
                    let w = 2 + 2 * (depth - 1 - k) * (gap + 1);
                    let h = 1 + 2 * (depth - 1 - k) * (gap + 1) / 1;
                    let rows = shapes::box_rows(&shapes::SHARP, w, h, None, &[]);
                    for (r, l) in rows.iter().enumerate() {
                        cv.text(off as i32, (off + r) as i32, l);
                    }
                    want.push(((off as f64 + 0.5) * s8, (2.0 * off as f64 + 1.0) * s8, (w as f64 + 1.0) * s8, 2.0 * (h as f64 + 1.0) * s8));
                }
                let drawing = cv.render();
                let d = match cx.conv_doc(&drawing, &Sett::bare()) {
                    Some(d) => d,
                    None => return,
                };
                cx.compared();
                let mut got: Vec<(f64, f64, f64, f64)> = d.of(Kind::Rect).map(|r| (r.xs[0], r.ys[0], r.lens[0], r.lens[1])).collect();
                got.sort_by(|a, b| a.partial_cmp(b).unwrap());
                want.sort_by(|a, b| a.partial_cmp(b).unwrap());
                if got != want || d.elems.len() != depth {
                    cx.fail("box-not-one-rect", format!("{} nested boxes (gap {}) must be exactly {} rect elements {:?}; got [{}]\n{}", depth, gap, depth, want,
                        d.elems.iter().take(10).map(|e| e.brief()).collect::<Vec<_>>().join(" ; "), drawing));
                } else {
                    cx.outcome(&("nested", depth, gap));
                }
            } else {
                let label = &case.x[0];
                let cols = enumr::display_cols(label);
                let pos = case.n[0];
                // pos 0: label flush left inside; 1: padded inside; 2: the wide text stands left of the box on the middle row
                let (drawing, bx): (String, usize) = match pos {
                    0 => (format!("+------+\n|{}{}|\n+------+", label, " ".repeat(6 - cols)), 0),
                    1 => (format!("+------+\n| {}{}|\n+------+", label, " ".repeat(5 - cols)), 0),
                    _ => (format!("{}+------+\n{} |      |\n{}+------+", " ".repeat(cols + 1), label, " ".repeat(cols + 1)), cols + 1),
                };
                let d = match cx.conv_doc(&drawing, &Sett::bare()) {
                    Some(d) => d,
                    None => return,
                };
                cx.compared();
                let rects: Vec<_> = d.of(Kind::Rect).collect();
                let ok = rects.len() == 1
                    && (rects[0].xs[0], rects[0].ys[0], rects[0].lens[0], rects[0].lens[1]) == ((bx as f64 + 0.5) * s8, s8, 7.0 * s8, 4.0 * s8)
                    && d.elems.iter().all(|e| e.kind == Kind::Rect || e.kind == Kind::Text);
                if !ok {
                    cx.fail("box-not-one-rect", format!("box with the double-width label {:?} (variant {}) must be one rect; got [{}]\n{}", label, pos,
                        d.elems.iter().take(8).map(|e| e.brief()).collect::<Vec<_>>().join(" ; "), drawing));
                } else {
                    cx.outcome(&("wide", label.clone(), pos));
                }
            }
            return;
        }
        if scope == "udashed-boxes" {
            let (si, w, h, hor, mirror) = (case.n[0] as usize, case.n[1] as usize, case.n[2] as usize, case.n[3], case.n[4]);
            let (sname, mut st) = style_by_index(si);
            if hor == 1 {
                st.hor = '┄';
            }
            let l: Vec<char> = case.x[0].chars().collect();
            let mut r = l.clone();
            if mirror == 1 {
                r.reverse();
            }
            let mut rows = shapes::box_rows(&st, w, h, None, &[]);
            for i in 0..h {
                let mut cs: Vec<char> = rows[i + 1].chars().collect();
                cs[0] = l[i];
                let n = cs.len();
                cs[n - 1] = r[i];
                rows[i + 1] = cs.into_iter().collect();
            }
            let drawing = rows.join("\n");
            let d = match cx.conv_doc(&drawing, &Sett::bare()) {
                Some(d) => d,
                None => return,
            };
            cx.compared();
            check_soundness(cx, &drawing, &d);
            let s = 8.0;
            let dashed = drawing.chars().any(|c| matches!(c, '┄' | '╎' | '┊' | '┆'));
            let want = (0.5 * s, s, (w as f64 + 1.0) * s, 2.0 * (h as f64 + 1.0) * s, if st.is_rounded() { s / 2.0 } else { 0.0 });
            let rects: Vec<_> = d.of(Kind::Rect).collect();
            let mut ok = rects.len() == 1 && d.elems.len() == 1;
            if ok {
                let r = rects[0];
                ok = (r.xs[0], r.ys[0], r.lens[0], r.lens[1], r.lens[2]) == want
                    && r.has_class(if dashed { "broken" } else { "solid" })
                    && !r.has_class(if dashed { "solid" } else { "broken" })
                    && r.has_class("nofill");
            }
            if !ok {
                cx.fail("box-not-one-rect", format!("box style {} inner {}x{} with sides {:?}/{:?}: expected one rect x={} y={} w={} h={} rx={} class {}; got [{}]\n{}",
                    sname, w, h, l.iter().collect::<String>(), r.iter().collect::<String>(), want.0, want.1, want.2, want.3, want.4,
                    if dashed { "broken" } else { "solid" }, d.elems.iter().take(8).map(|e| e.brief()).collect::<Vec<_>>().join(" ; "), drawing));
            } else {
                cx.outcome(&("udashed", si, dashed, w, h.min(2)));
            }
            return;
        }
        if !scope.starts_with("boxes") {
            let d = match cx.conv_doc(&case.s, &Sett::bare()) {
                Some(d) => d,
                None => return,
            };
            cx.compared();
            if d.count(Kind::Rect) > 0 {
                cx.outcome(&d.skeleton());
            }
            check_soundness(cx, &case.s, &d);
            return;
        }
        let (si, w, h, ox, oy, interior, pat) = (
            case.n[0] as usize,
            case.n[1] as usize,
            case.n[2] as usize,
            case.n[3] as usize,
            case.n[4] as usize,
            case.n[5],
            case.n[6],
        );
        let (sname, st) = style_by_index(si);
        // sizes at which the drawing is not a closed box by the character semantics
        if st.is_rounded() && !st.is_unicode() && w == 0 {
            cx.tally("excluded: rounded ASCII style with inner width 0");
            return;
        }
        if st.tl == ',' && st.bl == '\'' && h == 0 {
            cx.tally("excluded: ',' top-left corner with inner height 0");
            return;
        }
        let full = if h <= 3 { 3 } else { 6 };
        let sides: Option<(Vec<char>, Vec<char>)> = if pat > 0 {
            let pi = ((pat - 1) / 2) as usize;
            let mirror = (pat - 1) % 2 == 1;
            // both tiers index into the same list construction
            let pats = side_patterns(h, if h <= 3 { 3 } else { full });
            let pats = if pi < pats.len() { pats } else { side_patterns(h, 6) };
            let mut cands = pats;
            if pi >= cands.len() {
                cands = side_patterns(h, 6);
            }
            let l = cands[pi.min(cands.len() - 1)].clone();
            let mut r = l.clone();
            if mirror {
                r.reverse();
            }
            Some((l, r))
        } else {
            None
        };
        let word = if interior > 0 { WORDS[((interior - 1) / 2) as usize] } else { "" };
        if interior > 0 && word.len() > w {
            return;
        }
        let left = interior % 2 == 1;
        let inner: Vec<String> = if interior == 0 {
            vec![]
        } else if left {
            vec![word.to_string()]
        } else {
            vec![format!("{}{}", " ".repeat(w - word.len()), word)]
        };
        // build the box
        let mut rows = shapes::box_rows(&st, w, h, None, &inner);
        if let Some((l, r)) = &sides {
            for i in 0..h {
                let mut cs: Vec<char> = rows[i + 1].chars().collect();
                cs[0] = l[i];
                let n = cs.len();
                cs[n - 1] = r[i];
                rows[i + 1] = cs.into_iter().collect();
            }
        }
        let drawing = enumr::shift(&rows.join("\n"), ox, oy);
        let d = match cx.conv_doc(&drawing, &Sett::bare()) {
            Some(d) => d,
            None => return,
        };
        cx.compared();
        check_soundness(cx, &drawing, &d);
        let s = 8.0;
        let dashed = drawing.chars().any(|c| matches!(c, '~' | ':' | '!'));
        let want = (
            (ox as f64 + 0.5) * s,
            (2.0 * oy as f64 + 1.0) * s,
            (w as f64 + 1.0) * s,
            2.0 * (h as f64 + 1.0) * s,
            if st.is_rounded() { s / 2.0 } else { 0.0 },
        );
        let rects: Vec<_> = d.of(Kind::Rect).collect();
        let others: Vec<_> = d.elems.iter().filter(|e| e.kind != Kind::Rect && e.kind != Kind::Text).collect();
        let texts: Vec<_> = d.of(Kind::Text).collect();
        let mut ok = rects.len() == 1 && others.is_empty() && d.groups == 0;
        if ok {
            let r = rects[0];
            let got = (r.xs[0], r.ys[0], r.lens[0], r.lens[1], r.lens[2]);
            let cls_ok = r.has_class(if dashed { "broken" } else { "solid" }) && !r.has_class(if dashed { "solid" } else { "broken" }) && r.has_class("nofill");
            ok = got == want && cls_ok;
        }
        if ok {
            // interior labels and nothing else as text
            let want_t: Vec<(f64, f64, String)> = if interior == 0 {
                vec![]
            } else if left {
                vec![((ox as f64 + 1.0) * s + 2.0, (oy as f64 + 1.0) * 2.0 * s + 12.0, word.to_string())]
            } else {
                vec![((ox as f64 + 1.0 + (w - word.len()) as f64) * s + 2.0, (oy as f64 + 1.0) * 2.0 * s + 12.0, word.to_string())]
            };
            let got_t: Vec<(f64, f64, String)> = texts.iter().map(|t| (t.xs[0], t.ys[0], t.text.clone())).collect();
            ok = want_t == got_t;
        }
        if !ok && st.tl == '╭' && w == 0 && rects.is_empty() && texts.is_empty() && d.groups == 1 {
            // known finding: the outline is drawn (arcs joined by the side lines) but not endorsed as one rect
            let only_outline = d.elems.iter().all(|e| (e.kind == Kind::Path || e.kind == Kind::Line) && e.group == Some(0));
            let mut bb = (f64::INFINITY, f64::INFINITY, f64::NEG_INFINITY, f64::NEG_INFINITY);
            for e in &d.elems {
                let b = e.bbox();
                bb = (bb.0.min(b.0), bb.1.min(b.1), bb.2.max(b.2), bb.3.max(b.3));
            }
            let same_box = (bb.0 - want.0).abs() < 1e-6 && (bb.1 - want.1).abs() < 1e-6 && (bb.2 - want.0 - want.2).abs() < 1e-6 && (bb.3 - want.1 - want.3).abs() < 1e-6;
            if only_outline && same_box {
                cx.fail_kf(
                    "box-not-one-rect",
                    format!("box-drawing rounded box of inner width 0, inner height {} at ({},{}) is drawn as a group of {} arcs/lines instead of one rect", h, ox, oy, d.elems.len()),
                    "c05-boxround-zero-width-not-endorsed",
                );
                return;
            }
        }
        if !ok {
            cx.fail(
                "box-not-one-rect",
                format!(
                    "box style {} inner {}x{} at ({},{}) interior {} sides {:?}: expected one rect x={} y={} w={} h={} rx={} class {}; got [{}]\n{}",
                    sname,
                    w,
                    h,
                    ox,
                    oy,
                    interior,
                    sides.as_ref().map(|(l, r)| format!("{}/{}", l.iter().collect::<String>(), r.iter().collect::<String>())),
                    want.0,
                    want.1,
                    want.2,
                    want.3,
                    want.4,
                    if dashed { "broken" } else { "solid" },
                    d.elems.iter().take(8).map(|e| e.brief()).collect::<Vec<_>>().join(" ; "),
                    drawing
                ),
            );
        } else {
            cx.outcome(&(si, w.min(3), h.min(3), dashed, interior));
        }
    }
}
