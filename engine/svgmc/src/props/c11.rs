//! C11 — the scale setting scales every length and nothing else.
use crate::conv::Sett;
use crate::enumr;
use crate::runner::{Case, Cx, Prop, Scope, Tier};
use crate::shapes;
use crate::svg::{self, Doc, El, Kind};

pub struct C11;

const SCALES: [f64; 6] = [0.5, 1.0, 3.0, 10.0, 20.0, 37.5];

/// built-in class tokens; anything else comes from a {tag}
fn builtin_class(c: &str) -> bool {
    matches!(c, "solid" | "broken" | "filled" | "nofill" | "bg_filled" | "backdrop")
        || c.starts_with("start_marked_")
        || c.starts_with("end_marked_")
}

fn strip_tags(d: &Doc) -> Vec<El> {
    d.elems
        .iter()
        .filter(|e| !(e.kind == Kind::Text && e.text.contains('{')))
        .map(|e| {
            let mut e = e.clone();
            e.cls.retain(|c| builtin_class(c));
            e
        })
        .collect()
}

fn rel_close(a: &El, b: &El) -> bool {
    let c = |x: f64, y: f64| (x - y).abs() <= 1e-5 * x.abs().max(y.abs()) + 1e-6;
    a.same_shape(b)
        && a.xs.iter().zip(&b.xs).all(|(x, y)| c(*x, *y))
        && a.ys.iter().zip(&b.ys).all(|(x, y)| c(*x, *y))
        && a.lens.iter().zip(&b.lens).all(|(x, y)| c(*x, *y))
}

fn diff(a: &[El], b: &[El]) -> (Vec<El>, Vec<El>) {
    let mut used = vec![false; b.len()];
    let mut oa = vec![];
    for x in a {
        match (0..b.len()).find(|j| !used[*j] && rel_close(x, &b[*j])) {
            Some(j) => used[j] = true,
            None => oa.push(x.clone()),
        }
    }
    let ob = (0..b.len()).filter(|j| !used[*j]).map(|j| b[j].clone()).collect();
    (oa, ob)
}

impl Prop for C11 {
    fn id(&self) -> &'static str {
        "C11"
    }
    fn rule(&self) -> &'static str {
        "every input of the scopes is converted at scale 8 and at each of {0.5,1,3,10,20,37.5}; the scale-8 elements multiplied by s/8 must equal \
         the scale-s elements (kinds, counts, order-insensitive, classes, flags, text, group count; relative tolerance 1e-5). \
         distinct_nontrivial = distinct non-empty output skeletons"
    }
    fn scopes(&self, tier: Tier, _seed: u64) -> Vec<Scope> {
        let mut v = vec![];
        v.push(Scope::new("absolute", "the absolute clause: '-' and '|' at scale 8", |f| {
            f(Case::s("-"));
            f(Case::s("|"));
        }));
        v.push(Scope::new(
            "families",
            "all parametric shape families (rects, rounded rects, circles, arcs, polygons, marker lines, text, quoted text) and tagged shapes x 6 scales",
            |f| {
                for (_n, d) in shapes::family_samples(30) {
                    f(Case::s(d));
                }
                for d in [
                    "+-----+\n| {a} |\n+-----+",
                    ".-----.\n| {a} |\n'-----'",
                    "+------+\n|{a,b} |\n| text |\n+------+",
                    "+---------+\n| +-----+ |\n| | {a} | |\n| +-----+ |\n|  {b}    |\n+---------+",
                    "{a} outside",
                    "+---+\n|{a}|\n+---+",
                    "+-----+\n|  {a}|\n+-----+",
                    "+-----+\n|{a}  |\n+-----+",
                    "+----+\n|ab  |\n|  cd|\n+----+",
                    ".---.\n|{w}|\n'---'",
                    "+---+---+\n|{a}|{b}|\n+---+---+",
                ] {
                    f(Case::s(d));
                }
                for d in shapes::catalog().into_iter().skip(8).take(6) {
                    // a tag in the middle of a catalogue circle
                    let rows: Vec<&str> = d.split('\n').collect();
                    let mid = rows.len() / 2;
                    let mut out: Vec<String> = rows.iter().map(|r| r.to_string()).collect();
                    let w = out.iter().map(|r| r.chars().count()).max().unwrap_or(0);
                    let mut row: Vec<char> = out[mid].chars().collect();
                    while row.len() < w {
                        row.push(' ');
                    }
                    let at = w / 2 - 1;
                    if at + 3 < w && row[at..at + 3].iter().all(|c| *c == ' ') {
                        row[at] = '{';
                        row[at + 1] = 'a';
                        row[at + 2] = '}';
                        out[mid] = row.into_iter().collect();
                        f(Case::s(out.join("\n")));
                    }
                }
            },
        ));
        v.push(Scope::new(
            "large",
            "a small box, a word and an arrow placed 900..20000 columns to the right or 450..20000 rows down (declared sizes up to 750 000 units) x 6 scales: the canvas keeps scaling with the content",
            |f| {
                for n in [900usize, 1000, 1800, 5000, 20000] {
                    f(Case::s(enumr::shift("+--+\n|ab|\n+--+ -->", n, 0)));
                }
                for n in [450usize, 1000, 5000, 20000] {
                    f(Case::s(enumr::shift("+--+\n|ab|\n+--+ -->", 0, n)));
                }
                f(Case::s(enumr::shift("(_)--*", 3000, 1500)));
            },
        ));
        v.push(Scope::new(
            "nbhd2",
            "every drawing character (ASCII + unicode tables) with one other at each neighbouring position x 6 scales (thorough) / 2 scales (quick)",
            move |f| {
                let mut a = shapes::sigma_ascii();
                a.extend(shapes::sigma_uni());
                let quick = tier == Tier::Quick;
                enumr::nbhd(&a, &a, 1, &mut |s| f(Case::sn(s, vec![quick as i64])));
            },
        ));
        if tier == Tier::Thorough {
            v.push(Scope::new("examples", "bundled example diagrams x 6 scales", |f| {
                for (_n, d) in shapes::bundled_examples() {
                    f(Case::s(d));
                }
            }));
        }
        v
    }
    fn check(&self, scope: &str, case: &Case, cx: &mut Cx) {
        let base = match cx.conv_doc(&case.s, &Sett::bare_scale(8.0)) {
            Some(d) => d,
            None => return,
        };
        if !base.elems.is_empty() {
            cx.outcome(&base.skeleton());
        }
        if scope == "absolute" {
            cx.compared();
            let e = &base.elems;
            let want = if case.s == "-" { (0.0, 8.0, 8.0, 8.0) } else { (4.0, 0.0, 4.0, 16.0) };
            let ok = e.len() == 1
                && e[0].kind == Kind::Line
                && (e[0].xs[0], e[0].ys[0], e[0].xs[1], e[0].ys[1]) == want
                && base.w == 16.0
                && base.h == 32.0;
            if !ok {
                cx.fail(
                    "absolute",
                    format!("at scale 8 {:?} rendered as {:?} on {}x{}", case.s, e.iter().map(|e| e.brief()).collect::<Vec<_>>(), base.w, base.h),
                );
            }
            return;
        }
        let quick_pair = case.n.first().copied().unwrap_or(0) == 1;
        let scales: Vec<f64> = if quick_pair { vec![0.5, 37.5] } else { SCALES.to_vec() };
        let has_tag = case.s.contains('{');
        for s in scales {
            let d = match cx.conv_doc(&case.s, &Sett::bare_scale(s as f32)) {
                Some(d) => d,
                None => return,
            };
            cx.compared();
            let f = s / 8.0;
            let want: Vec<El> = base.elems.iter().map(|e| e.scaled(f)).collect();
            let (oa, ob) = diff(&want, &d.elems);
            let mut bad = !oa.is_empty() || !ob.is_empty() || d.groups != base.groups;
            let canvas_bad = (d.w - base.w * f).abs() > 1e-5 * d.w.abs() + 1e-6 || (d.h - base.h * f).abs() > 1e-5 * d.h.abs() + 1e-6;
            bad |= canvas_bad;
            if bad {
                let detail = format!(
                    "scale {} vs 8: expected-only [{}] got-only [{}] groups {}->{} canvas {}x{} vs {}x{}*{}",
                    s,
                    oa.iter().take(5).map(|e| e.brief()).collect::<Vec<_>>().join(" ; "),
                    ob.iter().take(5).map(|e| e.brief()).collect::<Vec<_>>().join(" ; "),
                    base.groups,
                    d.groups,
                    d.w,
                    d.h,
                    base.w,
                    base.h,
                    f
                );
                // known finding: tag containment uses an unscaled text width
                if has_tag && s < 1.0 && !canvas_bad && d.groups == base.groups {
                    let mut b2 = base.clone();
                    b2.elems = base.elems.iter().map(|e| e.scaled(f)).collect();
                    let (x, y) = diff(&strip_tags(&b2), &strip_tags(&d));
                    if x.is_empty() && y.is_empty() {
                        cx.fail_kf("scaled-elements", detail, "c11-tag-fit-unscaled");
                        continue;
                    }
                }
                cx.fail("scaled-elements", detail);
                return;
            }
        }
        let _ = svg::multiset_diff;
    }
}
