//! One module per property.
use crate::conv::{self, Entry, Sett};
use crate::runner::{self, Prop};
use std::io::{BufRead, Write};

pub mod c01;
pub mod c02;
pub mod c03;
pub mod c04;
pub mod c05;
pub mod c06;
pub mod c08;
pub mod c09;
pub mod c10;
pub mod c11;
pub mod c12;
pub mod c13;
pub mod c14;
pub mod c15;
pub mod c16;
pub mod c17;
pub mod c18;

pub fn by_id(id: &str) -> Option<Box<dyn Prop>> {
    match id {
        "C01" => Some(Box::new(c01::C01)),
        "C02" => Some(Box::new(c02::C02)),
        "C03" => Some(Box::new(c03::C03)),
        "C04" => Some(Box::new(c04::C04)),
        "C05" => Some(Box::new(c05::C05)),
        "C06" => Some(Box::new(c06::C06)),
        "C08" => Some(Box::new(c08::C08)),
        "C09" => Some(Box::new(c09::C09)),
        "C10" => Some(Box::new(c10::C10)),
        "C11" => Some(Box::new(c11::C11)),
        "C12" => Some(Box::new(c12::C12)),
        "C13" => Some(Box::new(c13::C13)),
        "C14" => Some(Box::new(c14::C14)),
        "C15" => Some(Box::new(c15::C15)),
        "C16" => Some(Box::new(c16::C16)),
        "C17" => Some(Box::new(c17::C17)),
        "C18" => Some(Box::new(c18::C18)),
        _ => None,
    }
}

/// line protocol used by the Python drivers: each stdin line is a JSON object
/// {"input_hex":…, "settings":{…}, "entry":"with_settings|to_svg|pretty|compressed"};
/// the answer is "@@R <hex of the library output>" or "@@R !panic"
pub fn reference_service() -> ! {
    conv::install_quiet_panic_hook();
    let stdin = std::io::stdin();
    let stdout = std::io::stdout();
    for line in stdin.lock().lines() {
        let line = match line {
            Ok(l) => l,
            Err(_) => break,
        };
        if line.trim().is_empty() {
            continue;
        }
        let v: serde_json::Value = match serde_json::from_str(&line) {
            Ok(v) => v,
            Err(_) => {
                let mut o = stdout.lock();
                let _ = writeln!(o, "@@R !badrequest");
                let _ = o.flush();
                continue;
            }
        };
        let input = runner::unhex(v["input_hex"].as_str().unwrap_or(""));
        let sett = Sett::from_json(&v["settings"]);
        let entry = match v["entry"].as_str().unwrap_or("with_settings") {
            "to_svg" => Entry::ToSvg,
            "pretty" => Entry::Pretty,
            "compressed" => Entry::Compressed,
            _ => Entry::WithSettings,
        };
        let r = conv::convert(&input, &sett, entry);
        let mut o = stdout.lock();
        match r {
            Ok(s) => {
                let _ = writeln!(o, "@@R {}", runner::hex(&s));
            }
            Err(_) => {
                let _ = writeln!(o, "@@R !panic");
            }
        }
        let _ = o.flush();
    }
    std::process::exit(0)
}

/// each stdin line is the hex of a document; answer "@@X 1 <canonical dump>" or "@@X 0"
pub fn xmldump_service() -> ! {
    let stdin = std::io::stdin();
    let stdout = std::io::stdout();
    let mut o = stdout.lock();
    for line in stdin.lock().lines() {
        let line = match line {
            Ok(l) => l,
            Err(_) => break,
        };
        let doc = runner::unhex(line.trim());
        match crate::xmlmini::parse(&doc) {
            Ok(d) => {
                let mut s = String::new();
                crate::xmlmini::dump(&d.root, &mut s);
                let _ = writeln!(o, "@@X 1 {}", s);
            }
            Err(_) => {
                let _ = writeln!(o, "@@X 0");
            }
        }
    }
    let _ = o.flush();
    std::process::exit(0)
}

pub fn orderhash_service(kind: u32, perm: usize, nperms: usize) -> ! {
    conv::install_quiet_panic_hook();
    let corpus = crate::shapes::order_corpus(kind);
    let order = crate::shapes::order_perm(corpus.len(), perm, nperms);
    let mut hashes = vec![0u64; corpus.len()];
    let sett = Sett { backdrop: false, defs: false, styles: true, ..Sett::default_() };
    for i in order {
        let h = match conv::convert(&corpus[i], &sett, Entry::WithSettings) {
            Ok(o) => runner::hash64(&o),
            Err(_) => 1,
        };
        hashes[i] = h;
    }
    let stdout = std::io::stdout();
    let mut o = stdout.lock();
    let _ = write!(o, "@@H");
    for h in hashes {
        let _ = write!(o, " {:x}", h);
    }
    let _ = writeln!(o);
    let _ = o.flush();
    std::process::exit(0)
}
