//! C03 — diagrams of - | + and labels render exactly the strokes the characters denote.
use crate::conv::Sett;
use crate::enumr;
use crate::runner::{Case, Cx, Prop, Scope, Tier};
use crate::shapes;
use crate::svg::{Doc, Kind};
use std::collections::BTreeSet;

pub struct C03;

/// a unit piece of stroke: horizontal pieces are 4 long, vertical pieces 8 long
/// (scale 8: a cell is 8 x 16); (x, y, vertical?)
pub type Piece = (i32, i32, bool);

fn add_h(set: &mut BTreeSet<Piece>, x0: i32, x1: i32, y: i32) {
    let mut x = x0;
    while x < x1 {
        set.insert((x, y, false));
        x += 4;
    }
}
fn add_v(set: &mut BTreeSet<Piece>, x: i32, y0: i32, y1: i32) {
    let mut y = y0;
    while y < y1 {
        set.insert((x, y, true));
        y += 8;
    }
}

pub fn grid_of(s: &str) -> Vec<Vec<char>> {
    s.split('\n').map(|l| l.chars().collect()).collect()
}

fn at(g: &[Vec<char>], c: i32, r: i32) -> char {
    if r < 0 || c < 0 {
        return ' ';
    }
    g.get(r as usize).and_then(|row| row.get(c as usize)).copied().unwrap_or(' ')
}

/// the reference renderer, written from the statement and spec.md:
/// returns (stroke pieces, text cells (col,row,char))
pub fn reference(g: &[Vec<char>]) -> (BTreeSet<Piece>, BTreeSet<(i32, i32, char)>) {
    let mut strokes = BTreeSet::new();
    let mut texts = BTreeSet::new();
    for (r, row) in g.iter().enumerate() {
        for (c, ch) in row.iter().enumerate() {
            let (c, r) = (c as i32, r as i32);
            let (x, y) = (8 * c, 16 * r);
            match ch {
                ' ' => {}
                '-' => add_h(&mut strokes, x, x + 8, y + 8),
                '|' => {
                    add_v(&mut strokes, x + 4, y, y + 16);
                    if at(g, c + 1, r) == '-' {
                        add_h(&mut strokes, x + 4, x + 8, y + 8);
                    }
                    if at(g, c - 1, r) == '-' {
                        add_h(&mut strokes, x, x + 4, y + 8);
                    }
                }
                '+' => {
                    let up = matches!(at(g, c, r - 1), '|' | '+');
                    let down = matches!(at(g, c, r + 1), '|' | '+');
                    let left = matches!(at(g, c - 1, r), '-' | '+');
                    let right = matches!(at(g, c + 1, r), '-' | '+');
                    if up {
                        add_v(&mut strokes, x + 4, y, y + 8);
                    }
                    if down {
                        add_v(&mut strokes, x + 4, y + 8, y + 16);
                    }
                    if left {
                        add_h(&mut strokes, x, x + 4, y + 8);
                    }
                    if right {
                        add_h(&mut strokes, x + 4, x + 8, y + 8);
                    }
                    if !(up || down || left || right) {
                        texts.insert((c, r, '+'));
                    }
                }
                other => {
                    texts.insert((c, r, *other));
                }
            }
        }
    }
    (strokes, texts)
}

fn as_lattice(v: f64, step: i32) -> Option<i32> {
    let r = v.round();
    if (v - r).abs() > 1e-9 {
        return None;
    }
    let i = r as i32;
    if i % step != 0 {
        return None;
    }
    Some(i)
}

/// stroke pieces and text cells of an output document; Err names what does not fit the lattice
pub fn observed(d: &Doc) -> Result<(BTreeSet<Piece>, Vec<(i32, i32, char)>), String> {
    let mut strokes = BTreeSet::new();
    let mut texts = vec![];
    let mut seg = |x1: f64, y1: f64, x2: f64, y2: f64, what: &str| -> Result<(), String> {
        let (a, b, c, e) = match (as_lattice(x1, 4), as_lattice(y1, 8), as_lattice(x2, 4), as_lattice(y2, 8)) {
            (Some(a), Some(b), Some(c), Some(e)) => (a, b, c, e),
            _ => return Err(format!("{} is off the half-cell lattice", what)),
        };
        if b == e {
            add_h(&mut strokes, a.min(c), a.max(c), b);
        } else if a == c {
            add_v(&mut strokes, a, b.min(e), b.max(e));
        } else {
            return Err(format!("{} is not axis aligned", what));
        }
        Ok(())
    };
    for e in &d.elems {
        match e.kind {
            Kind::Line => {
                if e.is_marked() || e.has_class("broken") {
                    return Err(format!("unexpected line class on {}", e.brief()));
                }
                seg(e.xs[0], e.ys[0], e.xs[1], e.ys[1], &e.brief())?
            }
            Kind::Rect => {
                if e.lens[2] != 0.0 || e.has_class("broken") || e.has_class("filled") {
                    return Err(format!("unexpected rect style on {}", e.brief()));
                }
                let (x, y, w, h) = (e.xs[0], e.ys[0], e.lens[0], e.lens[1]);
                let b = e.brief();
                seg(x, y, x + w, y, &b)?;
                seg(x, y + h, x + w, y + h, &b)?;
                seg(x, y, x, y + h, &b)?;
                seg(x + w, y, x + w, y + h, &b)?;
            }
            Kind::Text => {
                let cx = (e.xs[0] - 2.0) / 8.0;
                let cy = (e.ys[0] - 12.0) / 16.0;
                if cx.fract() != 0.0 || cy.fract() != 0.0 || cx < 0.0 || cy < 0.0 {
                    return Err(format!("{} is not anchored at point Q of a cell", e.brief()));
                }
                for (i, ch) in e.text.chars().enumerate() {
                    texts.push((cx as i32 + i as i32, cy as i32, ch));
                }
            }
            _ => return Err(format!("unexpected element {}", e.brief())),
        }
    }
    Ok((strokes, texts))
}

fn show(p: &BTreeSet<Piece>) -> String {
    p.iter()
        .take(8)
        .map(|(x, y, v)| if *v { format!("v({},{}..{})", x, y, y + 8) } else { format!("h({}..{},{})", x, x + 4, y) })
        .collect::<Vec<_>>()
        .join(" ")
}

pub fn compare(cx: &mut Cx, input: &str) {
    let d = match cx.conv_doc(input, &Sett::bare()) {
        Some(d) => d,
        None => return,
    };
    cx.compared();
    if !d.elems.is_empty() {
        cx.outcome(&d.skeleton());
    }
    let g = grid_of(input);
    let (want_s, want_t) = reference(&g);
    let (got_s, got_t) = match observed(&d) {
        Ok(x) => x,
        Err(e) => {
            cx.fail("strokes", format!("output not expressible as axis-aligned strokes and cell text: {}", e));
            return;
        }
    };
    if want_s != got_s {
        let missing: BTreeSet<Piece> = want_s.difference(&got_s).cloned().collect();
        let extra: BTreeSet<Piece> = got_s.difference(&want_s).cloned().collect();
        cx.fail(
            "strokes",
            format!(
                "stroked points differ from the per-character strokes: missing [{}] extra [{}]; output: {}",
                show(&missing),
                show(&extra),
                d.elems.iter().map(|e| e.brief()).collect::<Vec<_>>().join(" ; ")
            ),
        );
        return;
    }
    let got_set: BTreeSet<(i32, i32, char)> = got_t.iter().cloned().collect();
    if got_set != want_t || got_set.len() != got_t.len() {
        cx.fail(
            "texts",
            format!("text cells differ: expected {:?} got {:?}", want_t, got_t),
        );
    }
}

/// every box (inner w x h, sharp) with up to `d` cells of the box and its one-cell surround replaced
pub fn box_defects(alpha: &[char], maxw: usize, maxh: usize, d: usize, f: &mut dyn FnMut(String)) {
    for w in 0..=maxw {
        for h in 0..=maxh {
            let rows = shapes::box_rows(&shapes::SHARP, w, h, None, &[]);
            let gw = w + 4;
            let gh = h + 4;
            let mut cells = vec![' '; gw * gh];
            for (r, row) in rows.iter().enumerate() {
                for (c, ch) in row.chars().enumerate() {
                    cells[(r + 1) * gw + c + 1] = ch;
                }
            }
            fn rec(cells: &mut Vec<char>, alpha: &[char], start: usize, left: usize, gw: usize, gh: usize, f: &mut dyn FnMut(String)) {
                if left == 0 {
                    return;
                }
                for p in start..cells.len() {
                    let orig = cells[p];
                    for &a in alpha {
                        if a == orig {
                            continue;
                        }
                        cells[p] = a;
                        f(enumr::grid_string(cells, gw, gh));
                        rec(cells, alpha, p + 1, left - 1, gw, gh, f);
                    }
                    cells[p] = orig;
                }
            }
            f(enumr::grid_string(&cells, gw, gh));
            rec(&mut cells, alpha, 0, d, gw, gh, f);
        }
    }
}

/// every variant of `base` with up to `d` cells replaced by another character of `alpha`
pub fn grid_defects(base: &str, alpha: &[char], d: usize, f: &mut dyn FnMut(String)) {
    let rows: Vec<Vec<char>> = base.split('\n').map(|l| l.chars().collect()).collect();
    let gw = rows.iter().map(|r| r.len()).max().unwrap_or(0);
    let gh = rows.len();
    let mut cells = vec![' '; gw * gh];
    for (r, row) in rows.iter().enumerate() {
        for (c, ch) in row.iter().enumerate() {
            cells[r * gw + c] = *ch;
        }
    }
    fn rec(cells: &mut Vec<char>, alpha: &[char], start: usize, left: usize, gw: usize, gh: usize, f: &mut dyn FnMut(String)) {
        if left == 0 {
            return;
        }
        for p in start..cells.len() {
            let orig = cells[p];
            for &a in alpha {
                if a == orig {
                    continue;
                }
                cells[p] = a;
                f(enumr::grid_string(cells, gw, gh));
                rec(cells, alpha, p + 1, left - 1, gw, gh, f);
            }
            cells[p] = orig;
        }
    }
    f(enumr::grid_string(&cells, gw, gh));
    rec(&mut cells, alpha, 0, d, gw, gh, f);
}

const FRAMES: [&str; 3] = [
    "|  |\n+--+\n|  |\n|  |\n|  |\n+--+",
    "+--+\n|  |\n+--+\n|  |\n|  |\n+--+",
    "+-+-+\n| | |\n+-+-+\n| | |\n+-+-+",
];

const S4: [char; 4] = [' ', '-', '|', '+'];
const S5: [char; 5] = [' ', '-', '|', '+', 'a'];

impl Prop for C03 {
    fn id(&self) -> &'static str {
        "C03"
    }
    fn rule(&self) -> &'static str {
        "all grids over {space,-,|,+} of 3x3, 2x4, 4x2, 1x8, 8x1 (complete) and 3x4, 4x3, 2x6, 6x2 (thorough complete; quick one seed-selected 1/256 slice each), \
         all grids over {space,-,|,+,a} of 2x3/3x2 (quick) and 3x3 (thorough), and every sharp box up to 8x5 with up to 1 (quick) / 2 (thorough) cells of the box or its surround \
         replaced by any alphabet character; each is rendered and compared with an independent per-character reference renderer as exact sets of unit stroke pieces and text cells. \
         distinct_nontrivial = distinct non-empty output skeletons"
    }
    fn assumptions(&self) -> Vec<String> {
        vec!["the reference renderer encodes the statement: '-' = K-O; '|' = C-W plus a half stub towards an adjacent '-'; '+' = a half segment towards each of: top/bottom neighbour in {|,+}, left/right neighbour in {-,+}, text when none; label = text in its cell".into()]
    }
    fn shrinkable(&self, _s: &str) -> bool {
        true
    }
    fn scopes(&self, tier: Tier, seed: u64) -> Vec<Scope> {
        let mut v = vec![];
        for (w, h) in [(3usize, 3usize), (2, 4), (4, 2), (1, 8), (8, 1)] {
            v.push(Scope::new(&format!("grid4-{}x{}", w, h), "all grids over {space,-,|,+}", move |f| {
                enumr::grids(&S4, w, h, &mut |g| f(Case::s(g)))
            }));
        }
        let nsl: u64 = if tier == Tier::Quick { 256 } else { 1 };
        let sl = seed % nsl;
        for (w, h) in [(3usize, 4usize), (4, 3), (2, 6), (6, 2)] {
            v.push(Scope::new(
                &format!("grid4-{}x{}[{}/{}]", w, h, sl, nsl),
                "grids over {space,-,|,+}: the slice index = seed mod slices, enumerated completely",
                move |f| enumr::grids_slice(&S4, w, h, sl, nsl, &mut |g| f(Case::s(g))),
            ));
        }
        let lab: Vec<(usize, usize)> = if tier == Tier::Quick { vec![(2, 3), (3, 2)] } else { vec![(3, 3), (2, 4)] };
        for (w, h) in lab {
            v.push(Scope::new(&format!("grid5-{}x{}", w, h), "all grids over {space,-,|,+,a}", move |f| {
                enumr::grids(&S5, w, h, &mut |g| f(Case::s(g)))
            }));
        }
        let (lv, lh) = if tier == Tier::Quick { (40usize, 110usize) } else { (60, 140) };
        v.push(Scope::new(
            "long-branches",
            "a vertical line of every length up to the bound with a branch (+- , |- , -+ , -|) at every row, and a horizontal line of every length with a branch up or down at every column; large boxes",
            move |f| {
                for l in 2..=lv {
                    for r in 0..l {
                        for kind in 0..4 {
                            let mut cv = shapes::Canvas::new();
                            for i in 0..l as i32 {
                                cv.put(1, i, '|');
                            }
                            match kind {
                                0 => {
                                    cv.put(1, r as i32, '+');
                                    cv.put(2, r as i32, '-');
                                }
                                1 => cv.put(2, r as i32, '-'),
                                2 => {
                                    cv.put(1, r as i32, '+');
                                    cv.put(0, r as i32, '-');
                                }
                                _ => cv.put(0, r as i32, '-'),
                            }
                            let mut rows: Vec<String> = cv.render().split('\n').map(|x| x.to_string()).collect();
                            if kind < 2 {
                                // keep the column of the line at 1 (render() trims the empty column 0)
                                rows = rows.into_iter().map(|x| format!(" {}", x)).collect();
                            }
                            f(Case::s(rows.join("\n")));
                        }
                    }
                }
                let mut l = 2;
                while l <= lh {
                    for c in 0..l {
                        for up in 0..2 {
                            let mut top = vec![' '; l];
                            let mut mid = vec!['-'; l];
                            mid[c] = '+';
                            top[c] = '|';
                            let (a, b): (String, String) = (top.iter().collect(), mid.iter().collect());
                            f(Case::s(if up == 1 { format!("{}\n{}", a.trim_end(), b) } else { format!("{}\n{}", b, a.trim_end()) }));
                        }
                    }
                    l += if l < 12 { 1 } else { 7 };
                }
                for w in [1usize, 50, 99, 100, 101, 102, 120] {
                    for h in [1usize, 23, 24, 25, 26, 30, 40] {
                        f(Case::s(shapes::boxed(&shapes::SHARP, w, h)));
                    }
                }
            },
        ));
        v.push(Scope::new(
            "crossings",
            "boxes (inner 1..5 x 1..4) crossed by a horizontal line through every row or a vertical line through every column, the line overhanging 1..2 cells on either side, crossing cells '+' or the bare wall",
            |f| {
                for w in 1..=5usize {
                    for h in 1..=4usize {
                        for over in 1..=2i32 {
                            for plus in 0..2 {
                                for r in 1..=h as i32 {
                                    let mut cv = shapes::Canvas::new();
                                    cv.paste(2, 0, &shapes::boxed(&shapes::SHARP, w, h));
                                    for x in (2 - over)..(2 + w as i32 + 2 + over) {
                                        let wall = x == 2 || x == 2 + w as i32 + 1;
                                        if wall {
                                            if plus == 1 {
                                                cv.put(x, r, '+');
                                            }
                                        } else {
                                            cv.put(x, r, '-');
                                        }
                                    }
                                    f(Case::s(enumr::shift(&cv.render(), (2 - over) as usize, 0)));
                                }
                                for c in 1..=w as i32 {
                                    let mut cv = shapes::Canvas::new();
                                    cv.paste(0, 2, &shapes::boxed(&shapes::SHARP, w, h));
                                    for y in (2 - over)..(2 + h as i32 + 2 + over) {
                                        let wall = y == 2 || y == 2 + h as i32 + 1;
                                        if wall {
                                            if plus == 1 {
                                                cv.put(c, y, '+');
                                            }
                                        } else {
                                            cv.put(c, y, '|');
                                        }
                                    }
                                    f(Case::s(cv.render()));
                                }
                            }
                        }
                    }
                }
            },
        ));
        v.push(Scope::new(
            "combs",
            "combs of 2..8 teeth on one base line, tooth heights increasing, decreasing, alternating; base at the bottom or the top; teeth one or two columns apart (drawings that need many merge passes)",
            |f| {
                for n in 2..=8usize {
                    for pattern in 0..3 {
                        for gap in 1..=2usize {
                            for top in 0..2 {
                                let heights: Vec<usize> = (0..n).map(|i| match pattern { 0 => i + 1, 1 => n - i, _ => 1 + (i % 2) * 2 }).collect();
                                let maxh = *heights.iter().max().unwrap();
                                let mut cv = shapes::Canvas::new();
                                for (i, h) in heights.iter().enumerate() {
                                    let x = (i * (gap + 1)) as i32;
                                    for k in 0..*h {
                                        let y = if top == 1 { 1 + k as i32 } else { (maxh - 1 - k) as i32 };
                                        cv.put(x, y, '|');
                                    }
                                    let by = if top == 1 { 0 } else { maxh as i32 };
                                    cv.put(x, by, '+');
                                    if i + 1 < n {
                                        for g in 1..=gap {
                                            cv.put(x + g as i32, by, '-');
                                        }
                                    }
                                }
                                f(Case::s(cv.render()));
                            }
                        }
                    }
                }
            },
        ));
        v.push(Scope::new(
            "nested",
            "boxes nested 1..4 deep with 0..1 blank cells between the walls of successive levels, the innermost holding nothing, a label, a word, a lone +, a free - or | line, a bare box, or two labelled boxes side by side",
            |f| {
                let contents: [&[&str]; 8] = [
                    &[" "],
                    &["a"],
                    &["ab c"],
                    &["+"],
                    &["--"],
                    &["|", "|"],
                    &["+-+", "| |", "+-+"],
                    &["+-+ +-+", "|a| |b|", "+-+ +-+"],
                ];
                for content in contents {
                    for depth in 1..=4usize {
                        for padx in 0..=1usize {
                            for pady in 0..=1usize {
                                let mut rows: Vec<String> = content.iter().map(|s| s.to_string()).collect();
                                for _ in 0..depth {
                                    let w = rows.iter().map(|r| r.chars().count()).max().unwrap_or(0) + 2 * padx;
                                    let mut next = vec![format!("+{}+", "-".repeat(w))];
                                    for _ in 0..pady {
                                        next.push(format!("|{}|", " ".repeat(w)));
                                    }
                                    for r in &rows {
                                        let n = r.chars().count();
                                        next.push(format!("|{}{}{}|", " ".repeat(padx), r, " ".repeat(w - padx - n)));
                                    }
                                    for _ in 0..pady {
                                        next.push(format!("|{}|", " ".repeat(w)));
                                    }
                                    next.push(format!("+{}+", "-".repeat(w)));
                                    rows = next;
                                }
                                f(Case::s(rows.join("\n")));
                            }
                        }
                    }
                }
            },
        ));
        let quick_g = tier == Tier::Quick;
        v.push(Scope::new(
            "gapped-runs",
            "two collinear strokes separated by one blank or label cell, the first of every length up to 12 and at 20, 40, 64, 90, 99-102, 110, 130, 160, 200 (thorough: every length up to 260), the second 1 or 3 cells long, horizontal and vertical, free-standing or joined into one span by a bar beside the gap",
            move |f| {
                let lens: Vec<usize> = if quick_g { (1..=12).chain([20, 40, 64, 90, 99, 100, 101, 102, 110, 130, 160, 200]).collect() } else { (1..=260).collect() };
                for l in lens {
                    for gap in [' ', 'a'] {
                        for k in [1usize, 3] {
                            for join in 0..3 {
                                let row0 = format!("{}{}{}", "-".repeat(l), gap, "-".repeat(k));
                                f(Case::s(match join {
                                    0 => row0.clone(),
                                    1 => format!("{}\n{}|", row0, " ".repeat(l)),
                                    _ => format!("{}|\n{}", " ".repeat(l), row0),
                                }));
                                let mut rows: Vec<String> = vec![];
                                for _ in 0..l {
                                    rows.push(" |".to_string());
                                }
                                rows.push(match join {
                                    0 => format!(" {}", gap),
                                    1 => format!(" {}-", gap),
                                    _ => format!("-{}", gap),
                                });
                                for _ in 0..k {
                                    rows.push(" |".to_string());
                                }
                                f(Case::s(rows.join("\n")));
                            }
                        }
                    }
                }
            },
        ));
        let fd = if tier == Tier::Quick { 2 } else { 3 };
        v.push(Scope::new(
            &format!("frame-defects-{}", fd),
            "three multi-group frames (an open frame over a box, two stacked boxes, a 2x2 grid of boxes) with up to d cells replaced by any character of {space,-,|,+}",
            move |f| {
                for b in FRAMES {
                    grid_defects(b, &S4, fd, &mut |g| f(Case::s(g)));
                }
            },
        ));
        let d = if tier == Tier::Quick { 1 } else { 2 };
        let (mw, mh) = if tier == Tier::Quick { (8, 5) } else { (6, 3) };
        v.push(Scope::new(
            &format!("box-defects-{}", d),
            "every sharp box (inner size 0..maxw x 0..maxh) with up to d cells of the box and its one-cell surround replaced by any character of {space,-,|,+,a}",
            move |f| box_defects(&S5, mw, mh, d, &mut |g| f(Case::s(g))),
        ));
        v
    }
    fn check(&self, _scope: &str, case: &Case, cx: &mut Cx) {
        compare(cx, &case.s);
    }
}
