//! C09 — straight runs become one line; no two plain lines are collinear and touching.
use crate::conv::Sett;
use crate::enumr;
use crate::runner::{Case, Cx, Prop, Scope, Tier};
use crate::shapes;
use crate::svg::{Doc, El, Kind};

pub struct C09;

/// exact integer coordinates in 1/4 px (all lattice points of the cell grid at scale 8 are integers there)
fn q(v: f64) -> Option<i64> {
    let x = v * 4.0;
    if (x - x.round()).abs() < 1e-6 {
        Some(x.round() as i64)
    } else {
        None
    }
}

fn cross(ax: i64, ay: i64, bx: i64, by: i64) -> i64 {
    ax * by - ay * bx
}

/// do two segments lie on one straight line and share at least one point
fn collinear_touching(a: (i64, i64, i64, i64), b: (i64, i64, i64, i64)) -> bool {
    let (ax, ay) = (a.2 - a.0, a.3 - a.1);
    if ax == 0 && ay == 0 {
        // degenerate (zero length) line: touching if its point lies on b and b is non-degenerate
        let (bx, by) = (b.2 - b.0, b.3 - b.1);
        if bx == 0 && by == 0 {
            return (a.0, a.1) == (b.0, b.1);
        }
        return collinear_touching(b, a);
    }
    // both endpoints of b on the line through a
    if cross(ax, ay, b.0 - a.0, b.1 - a.1) != 0 || cross(ax, ay, b.2 - a.0, b.3 - a.1) != 0 {
        return false;
    }
    // project on the direction of a: parameters scaled by |a|^2
    let dot = |px: i64, py: i64| (px - a.0) * ax + (py - a.1) * ay;
    let len2 = ax * ax + ay * ay;
    let (t0, t1) = (dot(b.0, b.1), dot(b.2, b.3));
    let (lo, hi) = (t0.min(t1), t0.max(t1));
    // overlap of [lo,hi] with [0,len2] (a shared end point counts)
    hi >= 0 && lo <= len2
}

/// the global invariant on one output
pub fn check_invariant(cx: &mut Cx, d: &Doc) {
    let plain: Vec<&El> = d.of(Kind::Line).filter(|e| !e.is_marked()).collect();
    let mut segs: Vec<(i64, i64, i64, i64)> = vec![];
    for e in &plain {
        match (q(e.xs[0]), q(e.ys[0]), q(e.xs[1]), q(e.ys[1])) {
            (Some(a), Some(b), Some(c), Some(dd)) => segs.push((a, b, c, dd)),
            _ => {
                cx.tally("lines-off-quarter-lattice-skipped");
                segs.push((i64::MIN, 0, 0, 0));
            }
        }
    }
    for i in 0..segs.len() {
        if segs[i].0 == i64::MIN {
            continue;
        }
        for j in (i + 1)..segs.len() {
            if segs[j].0 == i64::MIN {
                continue;
            }
            if collinear_touching(segs[i], segs[j]) {
                cx.fail(
                    "collinear-touching",
                    format!("two plain lines lie on one straight line and touch or overlap: {} and {}", plain[i].brief(), plain[j].brief()),
                );
                return;
            }
        }
    }
}

const RUN_CHARS: [(char, u8, bool); 17] = [
    ('-', 0, false), ('~', 0, true), ('_', 0, false), ('=', 0, false), ('|', 1, false), (':', 1, true), ('!', 1, true),
    ('/', 3, false), ('\\', 2, false), ('─', 0, false), ('│', 1, false), ('┄', 0, true), ('╎', 1, true), ('┊', 1, true),
    ('╲', 2, false), ('╱', 3, false), ('═', 0, false),
];

impl Prop for C09 {
    fn id(&self) -> &'static str {
        "C09"
    }
    fn rule(&self) -> &'static str {
        "runs of each of 17 line characters x length 1..60 plus {100,200,400} (thorough: every length 1..400) x offsets; all mixed solid/dashed runs over {-,~} and {|,:,!} up to length 8 (thorough 10): \
         exactly one plain line (two for '=' / '═') from the first to the last cell's end point, dashed iff any character is dashed; and the global invariant (no two unmarked line elements collinear and touching, \
         exact integer arithmetic) on every output of all grids over {space,-,|,+,/,\\,_,.,'} of 2x3 and 3x2 (quick: a seed-selected 1/8 slice), all 3x3 grids with <=3 cells over that alphabet (thorough <=4), \
         and every 2-character neighbourhood of the full drawing alphabet. distinct_nontrivial = distinct skeletons of outputs with at least one line"
    }
    fn assumptions(&self) -> Vec<String> {
        vec![
            "'plain' line = a line element without a start_marked_/end_marked_ class ('--*' legitimately yields a marked line plus a stub)".into(),
            "a single ':' or '!' is text by design (length-1 runs of these two characters are excluded); mixed vertical runs start with a solid '|'".into(),
            "for '=' and '═' the oracle demands two parallel horizontal lines spanning the run, not particular heights".into(),
        ]
    }
    fn shrinkable(&self, scope: &str) -> bool {
        scope.starts_with("inv")
    }
    fn scopes(&self, tier: Tier, seed: u64) -> Vec<Scope> {
        let mut v = vec![];
        let lens: Vec<usize> = if tier == Tier::Quick {
            (1..=60).chain([100, 200, 400]).collect()
        } else {
            (1..=400).collect()
        };
        let offs: Vec<(usize, usize)> = if tier == Tier::Quick {
            vec![(0, 0), (1, 1), (3, 2), (50, 20)]
        } else {
            let mut o = vec![];
            for a in 0..4 {
                for b in 0..4 {
                    o.push((a, b));
                }
            }
            o.push((50, 20));
            o.push((300, 150));
            o
        };
        v.push(Scope::new("runs", "run(char, L) x offsets", move |f| {
            for (ci, _) in RUN_CHARS.iter().enumerate() {
                for &l in &lens {
                    for &(ox, oy) in &offs {
                        if l > 100 && (ox, oy) != (0, 0) && (ox, oy) != (3, 2) {
                            continue;
                        }
                        // a lone ':' or '!' is punctuation, not a run
                        if l == 1 && matches!(RUN_CHARS[ci].0, ':' | '!') {
                            continue;
                        }
                        f(Case::sn("", vec![ci as i64, l as i64, ox as i64, oy as i64]));
                    }
                }
            }
        }));
        let sl_max = if tier == Tier::Quick { 12usize } else { 40 };
        v.push(Scope::new("runs-with-stub", "a horizontal run of '-', '_' or '~' of every length 2..bound with a '|' directly above or below every one of its cells, and a vertical run of '|' with a '-' directly left or right of every one of its rows: the run is still covered by one line from its first to its last cell", move |f| {
            for ci in 0..4i64 {
                for l in 2..=sl_max {
                    for j in 0..l {
                        for side in 0..2i64 {
                            f(Case::sn("stub", vec![ci, l as i64, j as i64, side]));
                        }
                    }
                }
            }
        }));
        let ml = if tier == Tier::Quick { 8 } else { 10 };
        v.push(Scope::new("mixed-runs", "all strings over {-,~} (horizontal) and over {|,:,!} with a leading '|' (vertical) up to the length bound", move |f| {
            for l in 1..=ml {
                enumr::strings_exact(&['-', '~'], l, &mut |s| f(Case::snx("h", vec![], vec![s.iter().collect()])));
                if l >= 2 {
                    enumr::strings_exact(&['|', ':', '!'], l - 1, &mut |s| {
                        let mut t = String::from("|");
                        t.extend(s.iter());
                        f(Case::snx("v", vec![], vec![t]))
                    });
                }
            }
        }));
        let sd = [' ', '-', '|', '+', '/', '\\', '_', '.', '\''];
        let nsl: u64 = if tier == Tier::Quick { 8 } else { 1 };
        let sl = seed % nsl;
        for (w, h) in [(2usize, 3usize), (3, 2)] {
            v.push(Scope::new(
                &format!("inv-grid9-{}x{}[{}/{}]", w, h, sl, nsl),
                "global invariant on all grids over {space,-,|,+,/,\\,_,.,'} (slice = seed mod slices, complete)",
                move |f| enumr::grids_slice(&sd, w, h, sl, nsl, &mut |g| f(Case::s(g))),
            ));
        }
        let k = if tier == Tier::Quick { 3 } else { 4 };
        v.push(Scope::new(&format!("inv-sparse9-3x3-{}", k), "global invariant on all 3x3 grids with at most k non-blank cells over {-,|,+,/,\\,_,.,'}", move |f| {
            enumr::sparse(&sd[1..], 3, 3, k, &mut |g| f(Case::s(g)))
        }));
        v.push(Scope::new("inv-overlapping-boxes", "global invariant on drawings whose top-level fragments have overlapping, non-nested bounding boxes (parallel diagonals with a short run or label between them, a box next to a diagonal)", |f| {
            for d in shapes::overlapping_bbox_family() {
                f(Case::s(d));
            }
        }));
        v.push(Scope::new("inv-repeated-shapes", "global invariant on circles, arcs and boxes with an attached line, drawn once and two or three times at different positions of one page", |f| {
            for d in shapes::repeated_tailed_family() {
                f(Case::s(d));
            }
        }));
        v.push(Scope::new("inv-many-parallel", "global invariant on 8..64 parallel vertical runs (2..3 rows, one column apart), parallel diagonals, stacked horizontal runs, and tables of 8..40 columns x 1..2 rows of cells (many groups open at once when a run continues on the next row)", |f| {
            for n in [8usize, 15, 16, 17, 18, 20, 33, 64] {
                for rows in 2..=3usize {
                    for ch in ['|', '/', '\\', ':'] {
                        let mut cv = shapes::Canvas::new();
                        for k in 0..n {
                            for r in 0..rows {
                                let x = match ch {
                                    '/' => 2 * k + (rows - 1 - r),
                                    '\\' => 2 * k + r,
                                    _ => 2 * k,
                                };
                                cv.put(x as i32, r as i32, if ch == ':' && r == 0 { '|' } else { ch });
                            }
                        }
                        f(Case::s(cv.render()));
                    }
                }
                // a table: n cells per row
                for rows in 1..=2usize {
                    let border: String = format!("+{}", "--+".repeat(n));
                    let mid: String = format!("|{}", "  |".repeat(n));
                    let mut t = vec![border.clone()];
                    for _ in 0..rows {
                        t.push(mid.clone());
                        t.push(border.clone());
                    }
                    f(Case::s(t.join("\n")));
                }
                // n short horizontal runs per row, continued on no other row, over a long run below
                let row: String = (0..n).map(|_| "-- ").collect();
                f(Case::s(format!("{}\n{}\n{}", row, row, "-".repeat(3 * n))));
            }
        }));
        v.push(Scope::new("inv-nbhd2", "global invariant on every 2-character neighbourhood of the ASCII + unicode drawing alphabets", |f| {
            let mut a = shapes::sigma_ascii();
            a.extend(shapes::sigma_uni());
            enumr::nbhd(&a, &a, 1, &mut |s| f(Case::s(s)));
        }));
        if tier == Tier::Thorough {
            v.push(Scope::new("inv-sparse-ascii-3x3-3", "global invariant on all 3x3 grids with at most 3 cells over the ASCII drawing alphabet", |f| {
                let a = shapes::sigma_ascii();
                enumr::sparse(&a, 3, 3, 3, &mut |g| f(Case::s(g)));
            }));
            v.push(Scope::new("inv-examples", "global invariant on the bundled examples", |f| {
                for (_n, d) in shapes::bundled_examples() {
                    f(Case::s(d));
                }
            }));
        }
        v
    }
    fn check(&self, scope: &str, case: &Case, cx: &mut Cx) {
        if scope.starts_with("inv") {
            let d = match cx.conv_doc(&case.s, &Sett::bare()) {
                Some(d) => d,
                None => return,
            };
            cx.compared();
            if d.count(Kind::Line) > 0 {
                cx.outcome(&d.skeleton());
            }
            check_invariant(cx, &d);
            return;
        }
        if scope == "runs-with-stub" {
            let (ci, l, j, side) = (case.n[0], case.n[1] as usize, case.n[2] as usize, case.n[3]);
            let (drawing, want): (String, (f64, f64, f64, f64)) = if ci < 3 {
                let c = ['-', '_', '~'][ci as usize];
                let run: String = std::iter::repeat(c).take(l).collect();
                let stub = format!("{}|", " ".repeat(j));
                let (d, row) = if side == 0 { (format!("{}\n{}", stub, run), 1.0) } else { (format!("{}\n{}", run, stub), 0.0) };
                let y = 16.0 * row + if c == '_' { 16.0 } else { 8.0 };
                (d, (0.0, y, 8.0 * l as f64, y))
            } else {
                let rows: Vec<String> = (0..l).map(|r| if r == j { if side == 0 { "-|".to_string() } else { " |-".to_string() } } else { " |".to_string() }).collect();
                (rows.join("\n"), (12.0, 0.0, 12.0, 16.0 * l as f64))
            };
            let d = match cx.conv_doc(&drawing, &Sett::bare()) {
                Some(d) => d,
                None => return,
            };
            cx.compared();
            check_invariant(cx, &d);
            let covered = d.of(Kind::Line).any(|e| {
                let (ax, ay, bx, by) = (e.xs[0].min(e.xs[1]), e.ys[0].min(e.ys[1]), e.xs[0].max(e.xs[1]), e.ys[0].max(e.ys[1]));
                if want.1 == want.3 {
                    ay == want.1 && by == want.1 && ax <= want.0 && bx >= want.2
                } else {
                    ax == want.0 && bx == want.0 && ay <= want.1 && by >= want.3
                }
            });
            if !covered {
                cx.fail("run-cut-short", format!("drawing {:?}: no single line covers the run from ({},{}) to ({},{}); got [{}]", drawing, want.0, want.1, want.2, want.3, d.elems.iter().take(6).map(|e| e.brief()).collect::<Vec<_>>().join(" ; ")));
            } else {
                cx.outcome(&("stub", ci, l.min(6), side));
            }
            return;
        }
        // a run: build the drawing and predict the line(s)
        let (drawing, dir, dashed, double, len, ox, oy, ch): (String, u8, bool, bool, usize, usize, usize, String);
        if scope == "runs" {
            let (c, d, br) = RUN_CHARS[case.n[0] as usize];
            len = case.n[1] as usize;
            ox = case.n[2] as usize;
            oy = case.n[3] as usize;
            drawing = enumr::shift(&shapes::run(c, len, d), ox, oy);
            dir = d;
            dashed = br;
            double = c == '=' || c == '═';
            ch = c.to_string();
        } else {
            let s = &case.x[0];
            len = s.chars().count();
            ox = 0;
            oy = 0;
            double = false;
            ch = s.clone();
            if case.s == "h" {
                drawing = s.clone();
                dir = 0;
            } else {
                drawing = s.chars().map(|c| c.to_string()).collect::<Vec<_>>().join("\n");
                dir = 1;
            }
            dashed = s.chars().any(|c| matches!(c, '~' | ':' | '!'));
        }
        let d = match cx.conv_doc(&drawing, &Sett::bare()) {
            Some(d) => d,
            None => return,
        };
        cx.compared();
        check_invariant(cx, &d);
        let (x0, y0) = (8.0 * ox as f64, 16.0 * oy as f64);
        let l = len as f64;
        // expected end points per direction
        let mut want: Vec<(f64, f64, f64, f64)> = match dir {
            0 => {
                let y = if ch == "_" { y0 + 16.0 } else { y0 + 8.0 };
                vec![(x0, y, x0 + 8.0 * l, y)]
            }
            1 => vec![(x0 + 4.0, y0, x0 + 4.0, y0 + 16.0 * l)],
            2 => vec![(x0, y0, x0 + 8.0 * l, y0 + 16.0 * l)],
            _ => vec![(x0, y0 + 16.0 * l, x0 + 8.0 * l, y0)],
        };
        let norm = |a: (f64, f64, f64, f64)| if (a.0, a.1) <= (a.2, a.3) { a } else { (a.2, a.3, a.0, a.1) };
        let mut got: Vec<(f64, f64, f64, f64)> = d.of(Kind::Line).map(|e| norm((e.xs[0], e.ys[0], e.xs[1], e.ys[1]))).collect();
        got.sort_by(|a, b| a.partial_cmp(b).unwrap());
        let mut want: Vec<_> = want.into_iter().map(norm).collect();
        want.sort_by(|a, b| a.partial_cmp(b).unwrap());
        let cls_ok = d.of(Kind::Line).all(|e| e.has_class(if dashed { "broken" } else { "solid" }) && !e.is_marked());
        let only_lines = d.elems.iter().all(|e| e.kind == Kind::Line);
        // a single '_' / '/' etc. of length 1 may legitimately be text? the statement covers length >= 1 runs of line characters
        let matches = if double {
            // two parallel horizontal lines spanning the run, at two different heights inside the row
            got.len() == 2
                && got.iter().all(|g| g.0 == x0 && g.2 == x0 + 8.0 * l && g.1 == g.3 && g.1 > y0 && g.1 < y0 + 16.0)
                && got[0].1 != got[1].1
        } else {
            got == want
        };
        if !matches || !cls_ok || !only_lines {
            cx.fail(
                "run-not-one-line",
                format!(
                    "run of {} x {:?} (direction {}) at ({},{}) expected line(s) {:?} class {}; got [{}]",
                    len,
                    ch,
                    dir,
                    ox,
                    oy,
                    want,
                    if dashed { "broken" } else { "solid" },
                    d.elems.iter().take(6).map(|e| e.brief()).collect::<Vec<_>>().join(" ; ")
                ),
            );
        } else {
            cx.outcome(&(ch.chars().next(), len.min(12), dashed));
        }
    }
}
