//! C02 — the output is always one well-formed SVG/XML document that round-trips the text.
use crate::conv::{Entry, Sett};
use crate::enumr;
use crate::refmodel;
use crate::runner::{Case, Cx, Prop, Scope, Tier};
use crate::shapes;
use crate::xmlmini::{self, is_xml_char, Child, Element};
use std::collections::BTreeSet;

pub struct C02;

pub const SVG_NS: &str = "http://www.w3.org/2000/svg";

pub fn sigma_markup() -> Vec<char> {
    vec![
        '<', '>', '&', '\'', '"', ']', '[', '!', '-', '?', '/', ';', '#', '=', 'x', 'a', '0', '\0', '\u{1}', '\t', '\u{85}', '\u{2028}',
        '\u{D7FF}', '\u{E000}', '\u{FFFD}', '\u{FFFE}', '\u{FFFF}', '\u{10000}', ' ',
    ]
}

/// scalars of the quick tier: everything below U+3000, the first and last
/// scalar of every 256-block above, and the neighbourhood of special points
fn quick_scalars() -> Vec<char> {
    let mut s: BTreeSet<u32> = (0..0x3000u32).collect();
    let mut b = 0x3000u32;
    while b <= 0x10FFFF {
        s.insert(b);
        s.insert(b + 0xFF);
        b += 0x100;
    }
    for p in [0xD7FFu32, 0xE000, 0xFDD0, 0xFDEF, 0xFEFF, 0xFF01, 0xFF60, 0xFFFD, 0xFFFE, 0xFFFF, 0x10000, 0x1F600, 0x1FFFE, 0x1FFFF, 0x20000, 0xE0001, 0x10FFFD, 0x10FFFE, 0x10FFFF] {
        for d in 0..3 {
            s.insert(p.saturating_sub(1) + d);
        }
    }
    s.into_iter().filter(|u| *u <= 0x10FFFF).filter_map(char::from_u32).collect()
}

const SINKS: [&str; 6] = ["plain", "line", "quoted", "legend-decl", "legend-name", "tag"];

fn sink_input(sink: usize, s: &str) -> String {
    match sink {
        0 => format!("a{}b", s),
        1 => format!("--{}b", s),
        2 => format!("\"a{}b\" |", s),
        3 => format!("ab\n# Legend:\nx = {{a{}b}}\n", s),
        4 => format!("ab\n# Legend:\n{} = {{k}}\n", s),
        _ => format!("+--------+\n|{{{}}}     |\n+--------+", s),
    }
}

fn all_texts<'a>(e: &'a Element, out: &mut Vec<&'a Element>) {
    for c in e.elems() {
        if c.name == "text" {
            out.push(c);
        }
        all_texts(c, out);
    }
}

fn is_drawing(c: char, ascii: &[char], uni: &[char]) -> bool {
    ascii.contains(&c) || uni.contains(&c)
}

fn representable(s: &str) -> String {
    s.chars().filter(|c| is_xml_char(*c)).collect()
}

/// is `small` a subsequence of `big`
fn subsequence(small: &[char], big: &[char]) -> bool {
    let mut i = 0;
    for c in big {
        if i < small.len() && small[i] == *c {
            i += 1;
        }
    }
    i == small.len()
}

fn root_ok(cx: &mut Cx, root: &Element, what: &str) -> bool {
    if root.name != "svg" || root.attr("xmlns") != Some(SVG_NS) {
        cx.fail("root", format!("{}: root is <{}> xmlns={:?}", what, root.name, root.attr("xmlns")));
        return false;
    }
    for a in ["width", "height"] {
        match root.attr(a).map(crate::svg::parse_num) {
            Some(Ok(v)) if v.is_finite() && v >= 0.0 => {}
            other => {
                cx.fail("root", format!("{}: root {} is {:?}", what, a, other));
                return false;
            }
        }
    }
    true
}

impl Prop for C02 {
    fn id(&self) -> &'static str {
        "C02"
    }
    fn rule(&self) -> &'static str {
        "every Unicode scalar of the tier's scalar set (quick: all below U+3000 plus the first/last scalar of every 256-block and the neighbours of special points; thorough: all 1 112 064) and every string of length <= 2 (thorough 3) \
         over a 29-character markup alphabet, in each of 6 sinks (plain text, text after a line, quoted text, legend declaration, legend name, {tag}); plus, for the strings, all 8 include_* combinations x {pretty, compressed} on the plain and legend sinks. \
         Each output must be accepted by the strict in-house XML parser (itself bound to expat over every scalar and over every distinct output by drivers/expat_xcheck.py), have an svg root in the SVG namespace with numeric size, \
         and give back the input text: quoted segments exactly (minus characters XML cannot represent), plain text as a super-sequence of the label characters and a sub-sequence of the input, legend declarations inside the style text. \
         distinct_nontrivial = distinct (sink, class of the character/string, number of text elements) outcomes"
    }
    fn assumptions(&self) -> Vec<String> {
        vec![
            "settings strings (colours, font) are API arguments, not input text; they are outside this property".into(),
            "drawing characters in a plain sink may become geometry instead of text; only label characters must come back".into(),
        ]
    }
    fn shrinkable(&self, _s: &str) -> bool {
        false
    }
    fn scopes(&self, tier: Tier, _seed: u64) -> Vec<Scope> {
        let mut v = vec![];
        v.push(Scope::new("scalars", "every scalar of the tier's set x 6 sinks", move |f| {
            let scalars: Vec<char> = if tier == Tier::Quick {
                quick_scalars()
            } else {
                (0..=0x10FFFFu32).filter_map(char::from_u32).collect()
            };
            for c in scalars {
                for sink in 0..SINKS.len() {
                    f(Case::snx("", vec![sink as i64, 0], vec![c.to_string()]));
                }
            }
        }));
        let n = if tier == Tier::Quick { 2 } else { 3 };
        v.push(Scope::new("markup-strings", "every string over the markup alphabet up to the length bound x 6 sinks", move |f| {
            let a = sigma_markup();
            enumr::strings_upto(&a, n, &mut |s| {
                let st: String = s.iter().collect();
                for sink in 0..SINKS.len() {
                    f(Case::snx("", vec![sink as i64, 0], vec![st.clone()]));
                }
            })
        }));
        v.push(Scope::new("markup-strings-3", "every string of length 3 over the markup alphabet in the plain, quoted and legend-declaration sinks", move |f| {
            let a = sigma_markup();
            enumr::strings_exact(&a, 3, &mut |s| {
                let st: String = s.iter().collect();
                for sink in [0usize, 2, 3] {
                    f(Case::snx("", vec![sink as i64, 0], vec![st.clone()]));
                }
            })
        }));
        v.push(Scope::new("cdata-end-runs", "every string up to length 5 over {], >, U+0001, U+FFFE, x} in the plain, quoted and legend-declaration sinks (']]>' must never reach character data, also when characters that XML cannot represent are dropped from between its parts)", move |f| {
            enumr::strings_upto(&[']', '>', '\u{1}', '\u{fffe}', 'x'], 5, &mut |s| {
                let st: String = s.iter().collect();
                if st.contains(']') && st.contains('>') {
                    for sink in [0usize, 2, 3] {
                        f(Case::snx("", vec![sink as i64, 0], vec![st.clone()]));
                    }
                }
            })
        }));
        v.push(Scope::new("escaped-quotes", "quoted strings containing backslash-quote escapes and other backslashes: the text element must hold the characters between the outer quotes verbatim", |f| {
            for inner in ["say \\\"hi\\\"", "\\\"", "a\\\"b", "x\\y", "\\\"\\\"", "<\\\">", "一\\\"二", "end\\\\"] {
                f(Case::snx("", vec![6, 0], vec![inner.to_string()]));
            }
        }));
        v.push(Scope::new("switches", "every markup string up to length 2 x {plain, legend-decl} sinks x 8 include_* combinations x {pretty, compressed}", move |f| {
            let a = sigma_markup();
            enumr::strings_upto(&a, 2, &mut |s| {
                let st: String = s.iter().collect();
                for sink in [0usize, 3] {
                    f(Case::snx("", vec![sink as i64, 1], vec![st.clone()]));
                }
            })
        }));
        v
    }
    fn check(&self, _scope: &str, case: &Case, cx: &mut Cx) {
        if case.n[0] == 6 {
            // "…\"…" : one quoted segment, content verbatim (the backslashes are part of the text)
            let inner = &case.x[0];
            let input = format!("\"{}\" |", inner);
            let out = match cx.conv(&input, &Sett::bare()) {
                Some(o) => o,
                None => return,
            };
            cx.compared();
            let doc = match cx.xml_parse(&out) {
                Ok(d) => d,
                Err(e) => {
                    cx.fail("not-well-formed", format!("escaped quotes: {} at char {}", e.msg, e.pos));
                    return;
                }
            };
            let mut texts: Vec<&Element> = vec![];
            all_texts(&doc.root, &mut texts);
            let got: Vec<String> = texts.iter().map(|t| t.text()).collect();
            // a trailing backslash before the closing quote escapes it: then the segment is not closed and anything goes
            let closed = !inner.ends_with('\\');
            if closed && !got.iter().any(|g| g == inner) {
                cx.fail("text-roundtrip", format!("quoted segment {:?} does not come back verbatim: texts {:?}", inner, got));
            }
            cx.outcome(&("escaped-quotes", inner.len()));
            return;
        }
        let sink = case.n[0] as usize;
        let payload = &case.x[0];
        let input = sink_input(sink, payload);
        if case.n[1] == 1 {
            // well-formedness under every switch combination and both renderers
            for m in 0..8u8 {
                let s = Sett { backdrop: m & 1 != 0, styles: m & 2 != 0, defs: m & 4 != 0, ..Sett::default_() };
                if let Some(o) = cx.conv(&input, &s) {
                    cx.compared();
                    match cx.xml_parse(&o) {
                        Ok(d) => {
                            root_ok(cx, &d.root, "with settings");
                        }
                        Err(e) => {
                            cx.fail("not-well-formed", format!("switches {}: {} at char {}", m, e.msg, e.pos));
                            return;
                        }
                    }
                }
            }
            for e in [Entry::Compressed, Entry::Pretty, Entry::ToSvg, Entry::OverrideSize(320.0, 200.0)] {
                if let Some(o) = cx.conv_entry(&input, &Sett::default_(), e) {
                    cx.compared();
                    match cx.xml_parse(&o) {
                        Ok(d) => {
                            root_ok(cx, &d.root, "entry point");
                        }
                        Err(er) => {
                            cx.fail("not-well-formed", format!("entry {:?}: {} at char {}", e, er.msg, er.pos));
                            return;
                        }
                    }
                }
            }
            cx.outcome(&("switches", sink, payload.chars().count()));
            return;
        }
        let with_style = sink == 3 || sink == 4;
        let sett = Sett { backdrop: false, defs: false, styles: with_style, ..Sett::default_() };
        let out = match cx.conv(&input, &sett) {
            Some(o) => o,
            None => return,
        };
        cx.compared();
        let doc = match cx.xml_parse(&out) {
            Ok(d) => d,
            Err(e) => {
                cx.fail("not-well-formed", format!("sink {}: {} at char {}", SINKS[sink], e.msg, e.pos));
                return;
            }
        };
        if !root_ok(cx, &doc.root, SINKS[sink]) {
            return;
        }
        let mut texts: Vec<&Element> = vec![];
        all_texts(&doc.root, &mut texts);
        // text elements sorted by row then column
        let mut tv: Vec<(f64, f64, String)> = texts
            .iter()
            .map(|t| {
                (
                    t.attr("y").and_then(|v| v.parse().ok()).unwrap_or(0.0),
                    t.attr("x").and_then(|v| v.parse().ok()).unwrap_or(0.0),
                    t.text(),
                )
            })
            .collect();
        tv.sort_by(|a, b| a.partial_cmp(b).unwrap());
        let ascii = shapes::sigma_ascii();
        let uni = shapes::sigma_uni();
        let class = |s: &str| -> &'static str {
            if s.chars().any(|c| !is_xml_char(c)) {
                "unrepresentable"
            } else if s.chars().any(|c| matches!(c, '<' | '>' | '&' | '"' | '\'')) {
                "markup"
            } else if s.chars().any(|c| c.is_whitespace()) {
                "blank"
            } else if s.chars().any(|c| is_drawing(c, &ascii, &uni)) {
                "drawing"
            } else if s.chars().any(|c| enumr::char_cols(c) > 1) {
                "wide"
            } else {
                "label"
            }
        };
        cx.outcome(&(sink, class(payload), tv.len()));
        match sink {
            0 | 1 | 5 => {
                // plain sinks: first row only (the tag sink's text is on the second row)
                let row_y = if sink == 5 { 28.0 } else { 12.0 };
                let got: Vec<char> = tv.iter().filter(|t| t.0 == row_y).flat_map(|t| t.2.chars().collect::<Vec<_>>()).collect();
                let row_src: String = match sink {
                    0 | 1 => input.clone(),
                    _ => format!("|{{{}}}     |", payload),
                };
                // a payload with a line break changes the row structure: only well-formedness is checked
                if payload.contains('\n') || payload.contains('\r') || payload.contains('\u{85}') || payload.contains('\u{2028}') || payload.contains('\u{2029}') || payload.contains('\u{b}') || payload.contains('\u{c}') {
                    return;
                }
                if sink == 5 && (payload.contains('{') || payload.contains('}')) {
                    return;
                }
                // a tag that parses as identifiers is consumed (class attribute), not shown
                let src: Vec<char> = representable(&row_src).chars().collect();
                let must: Vec<char> = src.iter().cloned().filter(|c| !c.is_whitespace() && !is_drawing(*c, &ascii, &uni) && *c != '"').collect();
                if !subsequence(&got.iter().cloned().filter(|c| !c.is_whitespace()).collect::<Vec<_>>(), &src) {
                    cx.fail("text-roundtrip", format!("sink {}: the text read back {:?} is not made of the input characters {:?} in order", SINKS[sink], got.iter().collect::<String>(), row_src));
                    return;
                }
                let consumed_tag = sink == 5 && !tv.iter().any(|t| t.2.contains('{'));
                if !consumed_tag && !subsequence(&must, &got) {
                    cx.fail("text-roundtrip", format!("sink {}: label characters {:?} of the input {:?} do not all come back in the text {:?}", SINKS[sink], must.iter().collect::<String>(), row_src, got.iter().collect::<String>()));
                }
            }
            2 => {
                if payload.contains('\\') || payload.contains('\n') || payload.contains('\r') {
                    return;
                }
                let (_blank, quoted) = crate::props::c15::blank_and_texts(&input);
                for (col, row, content) in quoted {
                    if content.is_empty() {
                        continue;
                    }
                    let want = representable(&content);
                    let (x, y) = (8.0 * col as f64 + 2.0, 16.0 * row as f64 + 12.0);
                    let found = tv.iter().any(|t| t.0 == y && t.1 == x && t.2 == want);
                    if !found {
                        cx.fail(
                            "text-roundtrip",
                            format!("quoted segment {:?} of {:?} does not come back verbatim as a text element at ({},{}): texts {:?}", content, input, x, y, tv),
                        );
                        return;
                    }
                }
                let _ = refmodel::rows;
            }
            3 => {
                if payload.contains('{') || payload.contains('}') {
                    return;
                }
                let style = doc.root.elems().find(|e| e.name == "style").map(|e| e.text()).unwrap_or_default();
                let decl = representable(&format!("a{}b", payload)).replace("\r\n", "\n").replace('\r', "\n");
                let want = format!(".svgbob .x{{ {} }}", decl);
                if !style.ends_with(&want) {
                    let tail: String = style.chars().rev().take(60).collect::<Vec<_>>().into_iter().rev().collect();
                    cx.fail("legend-roundtrip", format!("legend declaration {:?} does not come back inside the style text; it ends with {:?}", decl, tail));
                }
            }
            _ => {}
        }
        let _ = Child::Text(String::new());
        let _ = xmlmini::is_xml_char;
    }
}
