//! C15 — quoted text is shown verbatim, draws nothing, and displaces nothing.
use crate::conv::Sett;
use crate::enumr;
use crate::refmodel;
use crate::runner::{Case, Cx, Prop, Scope, Tier};
use crate::svg::{self, El, Kind};

pub struct C15;

const SQ: [char; 8] = ['"', 'a', '-', '|', '一', 'é', '<', ' '];

/// reference scanner: (blanked document, expected quoted texts (col,row,content))
pub fn blank_and_texts(input: &str) -> (String, Vec<(usize, usize, String)>) {
    let mut out_rows: Vec<String> = vec![];
    let mut texts = vec![];
    for (r, row) in refmodel::rows(input).iter().enumerate() {
        let ex = refmodel::expand(row);
        let pairs = refmodel::quote_pairs(&ex);
        let mut blanked = ex.clone();
        for (a, b) in &pairs {
            let content: String = ex[a + 1..*b].iter().filter(|c| **c != '\0').collect();
            texts.push((*a, r, content));
            for i in *a..=*b {
                blanked[i] = ' ';
            }
        }
        out_rows.push(blanked.into_iter().filter(|c| *c != '\0').collect::<String>());
    }
    // a blanked wide character leaves its filler column: re-expand by replacing the pair with two spaces
    // (done above: fillers inside pairs were turned into spaces before being filtered, so widths are kept)
    (out_rows.join("\n"), texts)
}

impl Prop for C15 {
    fn id(&self) -> &'static str {
        "C15"
    }
    fn rule(&self) -> &'static str {
        "all rows over {\",a,-,|,一,é,<,space} up to length 5 alone and up to length 6 (thorough 7) above a row of bars at every column; thorough: two-row documents with a quoted segment in each row; \
         the rendering must equal the rendering of the row with every quoted region (quotes included) blanked, plus one text element per quote pair at point Q of the opening quote's cell \
         whose content is the literal characters between the quotes. distinct_nontrivial = distinct (quote pairs, skeleton) outcomes with at least one pair"
    }
    fn assumptions(&self) -> Vec<String> {
        vec![
            "no backslash in the inputs (per the property's quantifier); quotes pair left to right, a dangling last quote stays literal".into(),
            "an empty segment \"\" may yield an empty text element or none".into(),
        ]
    }
    fn shrinkable(&self, _s: &str) -> bool {
        true
    }
    fn scopes(&self, tier: Tier, _seed: u64) -> Vec<Scope> {
        let n = if tier == Tier::Quick { 6 } else { 7 };
        let mut v = vec![
            Scope::new("rows", "every row alone (length <= 5)", move |f| {
                enumr::strings_upto(&SQ, 5, &mut |s| {
                    if s.contains(&'"') {
                        f(Case::s(s.iter().collect::<String>()))
                    }
                })
            }),
            Scope::new("rows-over-bars", "every row with at least one quote, above a row of '|' at every column", move |f| {
                enumr::strings_upto(&SQ, n, &mut |s| {
                    if s.contains(&'"') {
                        let row: String = s.iter().collect();
                        let w = enumr::display_cols(&row).max(1);
                        f(Case::s(format!("{}\n{}", row, "|".repeat(w + 1))))
                    }
                })
            }),
        ];
        v.push(Scope::new("rows-zero-width", "rows over {\",a,|,space, combining acute U+0301, zero-width space U+200B} up to length 6 above a row of bars", move |f| {
            enumr::strings_upto(&['"', 'a', '|', ' ', '\u{301}', '\u{200b}'], 6, &mut |s| {
                if s.contains(&'"') && (s.contains(&'\u{301}') || s.contains(&'\u{200b}')) {
                    let row: String = s.iter().collect();
                    f(Case::s(format!("{}\n{}", row, "|".repeat(s.len() + 1))))
                }
            })
        }));
        v.push(Scope::new("entry-points", "rows over {\",a,-,|,space} up to length 5 through all five library entry points", move |f| {
            enumr::strings_upto(&['"', 'a', '-', '|', ' '], 5, &mut |s| {
                if s.iter().filter(|c| **c == '"').count() >= 2 {
                    f(Case::sn(s.iter().collect::<String>(), vec![1]))
                }
            })
        }));
        v.push(Scope::new("repeated-rows", "rows over {\",a,|,space} up to length 5 with a quoted segment, the same row repeated 2 and 3 times", |f| {
            enumr::strings_upto(&['"', 'a', '|', ' '], 5, &mut |s| {
                if s.iter().filter(|c| **c == '"').count() >= 2 {
                    let row: String = s.iter().collect();
                    f(Case::s(format!("{}\n{}", row, row)));
                    f(Case::s(format!("{}\n{}\n{}", row, row, row)));
                }
            })
        }));
        v.push(Scope::new("with-legend", "rows over {\",a,|,space} up to length 5 with a quoted segment, alone and above a box, followed by a legend section", |f| {
            enumr::strings_upto(&['"', 'a', '|', ' '], 5, &mut |s| {
                if s.iter().filter(|c| **c == '"').count() >= 2 {
                    let row: String = s.iter().collect();
                    f(Case::s(format!("{}\n# Legend:\na = {{fill:red}}\n", row)));
                    f(Case::s(format!("{}\n+--+\n|  |\n+--+\n# Legend:\na = {{fill:red}}\nb = {{stroke:blue}}", row)));
                }
            })
        }));
        v.push(Scope::new("long-segments", "one quoted segment of 1..70 and of 100, 127, 128, 129, 200, 255, 256, 257, 1000 columns (ASCII, and with a double-width character in it), followed by a bar and a word, above a row of bars", |f| {
            let mut ws: Vec<usize> = (1..=70).collect();
            ws.extend([100usize, 127, 128, 129, 200, 255, 256, 257, 1000]);
            for w in ws {
                for wide in [false, true] {
                    let content = if wide && w >= 2 { format!("一{}", "a".repeat(w - 2)) } else { "a".repeat(w) };
                    let row = format!("\"{}\" | x -", content);
                    f(Case::s(format!("{}\n{}", row, "|".repeat(w + 9))));
                }
            }
        }));
        let nb = if tier == Tier::Quick { 5 } else { 6 };
        v.push(Scope::new("rows-with-backslash", "rows over {\",\\,a,-,space} above a row of bars; only rows whose backslashes all lie outside the quoted regions and before no dangling quote are kept (the quantifier excludes a backslash inside quoted text)", move |f| {
            enumr::strings_upto(&['"', '\\', 'a', '-', ' '], nb, &mut |s| {
                if !s.contains(&'"') || !s.contains(&'\\') {
                    return;
                }
                let pairs = refmodel::quote_pairs(s);
                let nq = s.iter().filter(|c| **c == '"').count();
                let last_quote = s.iter().rposition(|c| *c == '"').unwrap_or(0);
                let ok = s.iter().enumerate().all(|(i, c)| {
                    *c != '\\' || (!pairs.iter().any(|(a, b)| i > *a && i < *b) && !(nq % 2 == 1 && i > last_quote))
                });
                if ok {
                    let row: String = s.iter().collect();
                    f(Case::s(format!("{}\n{}", row, "|".repeat(s.len() + 1))));
                }
            })
        }));
        if tier == Tier::Thorough {
            v.push(Scope::new("two-rows", "two rows, each over {\",a,一,|,space} up to length 5 with a quote in each", |f| {
                let mut rows: Vec<String> = vec![];
                enumr::strings_upto(&['"', 'a', '一', '|', ' '], 5, &mut |s| {
                    if s.iter().filter(|c| **c == '"').count() >= 2 {
                        rows.push(s.iter().collect())
                    }
                });
                for a in &rows {
                    for b in &rows {
                        f(Case::s(format!("{}\n{}", a, b)));
                    }
                }
            }));
        }
        v
    }
    fn check(&self, _scope: &str, case: &Case, cx: &mut Cx) {
        let input = &case.s;
        let (blanked, texts) = blank_and_texts(input);
        let sett = Sett::bare();
        if case.n.first() == Some(&1) {
            // every entry point must show the quoted texts: compare each with to_svg_with_settings (default settings)
            use crate::conv::Entry;
            let ds = Sett::default_();
            let reference = match cx.conv_entry(input, &ds, Entry::WithSettings).and_then(|o| cx.parse(&o)) {
                Some(d) => d,
                None => return,
            };
            for e in [Entry::ToSvg, Entry::Pretty, Entry::Compressed, Entry::OverrideSize(reference.w as f32, reference.h as f32)] {
                let d = match cx.conv_entry(input, &ds, e).and_then(|o| cx.parse(&o)) {
                    Some(d) => d,
                    None => return,
                };
                cx.compared();
                let (a, b) = svg::multiset_diff(&reference.elems, &d.elems, 1e-9);
                if !a.is_empty() || !b.is_empty() {
                    cx.fail("quoted-entry-point", format!("entry point {:?} renders the row differently from to_svg_with_settings: missing [{}] extra [{}]", e,
                        a.iter().take(4).map(|e| e.brief()).collect::<Vec<_>>().join(" ; "), b.iter().take(4).map(|e| e.brief()).collect::<Vec<_>>().join(" ; ")));
                    return;
                }
            }
        }
        let d = match cx.conv_doc(input, &sett) {
            Some(d) => d,
            None => return,
        };
        let b = match cx.conv_doc(&blanked, &sett) {
            Some(d) => d,
            None => return,
        };
        cx.compared();
        if !texts.is_empty() {
            cx.outcome(&(texts.len(), d.skeleton()));
        }
        let mut want: Vec<El> = b.elems.clone();
        let mut optional: Vec<El> = vec![];
        for (c, r, content) in &texts {
            let e = El {
                kind: Kind::Text,
                cls: vec![],
                group: None,
                xs: vec![8.0 * *c as f64 + 2.0],
                ys: vec![16.0 * *r as f64 + 12.0],
                lens: vec![],
                flags: vec![],
                text: content.clone(),
            };
            if content.is_empty() {
                optional.push(e);
            } else {
                want.push(e);
            }
        }
        let (missing, extra) = svg::multiset_diff(&want, &d.elems, 1e-9);
        let extra: Vec<El> = extra.into_iter().filter(|e| !optional.iter().any(|o| o.close_to(e, 1e-9))).collect();
        if !missing.is_empty() || !extra.is_empty() {
            cx.fail(
                "quoted-differs",
                format!(
                    "rendering differs from the blanked row {:?} plus the quoted texts: missing [{}] extra [{}]",
                    blanked,
                    missing.iter().take(5).map(|e| e.brief()).collect::<Vec<_>>().join(" ; "),
                    extra.iter().take(5).map(|e| e.brief()).collect::<Vec<_>>().join(" ; ")
                ),
            );
            return;
        }
        if d.groups != b.groups {
            cx.fail("quoted-differs", format!("group count {} vs {} for the blanked row", d.groups, b.groups));
            return;
        }
        if d.w != b.w || d.h != b.h {
            cx.fail("quoted-canvas", format!("canvas {}x{} differs from the canvas of the blanked row {}x{}", d.w, d.h, b.w, b.h));
        }
    }
}
