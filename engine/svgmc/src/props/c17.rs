//! C17 — line endings and invisible trailing whitespace do not change the output.
use crate::conv::Sett;
use crate::runner::{Case, Cx, Prop, Scope, Tier};
use crate::svg::Doc;

pub struct C17;

const TEMPLATES: [&str; 14] = [
    "x \"lbl\"",
    "say \"open -> x",
    "+--+",
    "|  |",
    "hello",
    "a \"q-|\" b",
    "一二 x",
    "*-->",
    "",
    "# Legend:",
    "a = {fill:red}",
    "b1 = {stroke: blue; fill: none}",
    "c = {x:1;\ny:2}",
    " .-.",
];
const BLANKS: [&str; 4] = ["", " ", "\t", " \t"];

fn norm_ws(s: &str) -> String {
    s.split_whitespace().collect::<Vec<_>>().join(" ")
}

fn same(a: &Doc, b: &Doc) -> Result<(), String> {
    if a.w != b.w || a.h != b.h {
        return Err(format!("canvas {}x{} vs {}x{}", a.w, a.h, b.w, b.h));
    }
    if a.elems != b.elems {
        let x: Vec<String> = a.elems.iter().filter(|e| !b.elems.contains(e)).take(5).map(|e| e.brief()).collect();
        let y: Vec<String> = b.elems.iter().filter(|e| !a.elems.contains(e)).take(5).map(|e| e.brief()).collect();
        return Err(format!("elements differ: reference-only [{}] variant-only [{}]", x.join(" ; "), y.join(" ; ")));
    }
    let sa = a.style.as_deref().map(norm_ws);
    let sb = b.style.as_deref().map(norm_ws);
    if sa != sb {
        let ta = sa.unwrap_or_default();
        let tb = sb.unwrap_or_default();
        // show the tails (legend rules come last)
        let tail = |t: &str| t.chars().rev().take(120).collect::<Vec<_>>().into_iter().rev().collect::<String>();
        return Err(format!("style sheets differ: reference …{:?} variant …{:?}", tail(&ta), tail(&tb)));
    }
    if a.backdrop != b.backdrop || a.has_defs != b.has_defs {
        return Err("backdrop/defs differ".into());
    }
    Ok(())
}

impl Prop for C17 {
    fn id(&self) -> &'static str {
        "C17"
    }
    fn rule(&self) -> &'static str {
        "all documents of up to 2 (quick) / 3 (thorough) lines from 14 line templates, plus four fixed legends with 2-3 entries (box parts, text, quoted text, CJK, arrow, empty line, legend header, \
         three legend entries incl. a multi-line one) x {LF, CRLF} x a trailing blank from {none, space, TAB, space+TAB} per line x 0..5 trailing blank lines or trailing lines holding only blanks; \
         each variant's parsed document must equal the LF/no-blank reference (style text modulo white-space runs). \
         distinct_nontrivial = distinct reference outputs (skeleton + style length)"
    }
    fn scopes(&self, tier: Tier, _seed: u64) -> Vec<Scope> {
        let maxl = if tier == Tier::Quick { 2 } else { 3 };
        vec![Scope::new(
            "docs",
            "documents of 1..maxl template lines; the check expands every line-ending / trailing-blank / trailing-line variant of each document",
            move |f| {
                let n = TEMPLATES.len();
                for len in 1..=maxl {
                    let total = n.pow(len as u32);
                    for t in 0..total {
                        let mut v = t;
                        let mut lines: Vec<String> = vec![];
                        for _ in 0..len {
                            lines.push(TEMPLATES[v % n].to_string());
                            v /= n;
                        }
                        lines.reverse();
                        f(Case::snx("", vec![], lines));
                    }
                }
                // legends with several entries (also reachable as 3-line documents in the thorough tier)
                for doc in [
                    vec!["# Legend:", "a = {fill:red}", "b1 = {stroke: blue; fill: none}"],
                    vec!["+--+", "# Legend:", "a = {fill:red}", "b1 = {stroke: blue; fill: none}"],
                    vec!["# Legend:", "a = {fill:red}", "b1 = {stroke: blue; fill: none}", "a = {x:1}"],
                    vec!["x \"lbl\"", "ab", "# Legend:", "a = {fill:red}"],
                    vec!["# Legend:", "", "a = {fill:red}", "b1 = {stroke: blue; fill: none}"],
                    vec!["+--+", "# Legend:", "a = {fill:red}", "", "b1 = {stroke: blue; fill: none}"],
                ] {
                    f(Case::snx("", vec![], doc.into_iter().map(|l| l.to_string()).collect()));
                }
            },
        )]
    }
    fn check(&self, _scope: &str, case: &Case, cx: &mut Cx) {
        // template lines may themselves contain '\n' (multi-line legend entry)
        let lines: Vec<String> = case.x.iter().flat_map(|l| l.split('\n').map(|s| s.to_string()).collect::<Vec<_>>()).collect();
        let reference = lines.join("\n");
        let sett = Sett { backdrop: true, styles: true, defs: false, ..Sett::default_() };
        let base = match cx.conv_doc(&reference, &sett) {
            Some(d) => d,
            None => return,
        };
        cx.outcome(&(base.skeleton(), base.style.as_ref().map(|s| s.len())));
        let nl = lines.len();
        let combos = BLANKS.len().pow(nl as u32);
        for eol in ["\n", "\r\n"] {
            for combo in 0..combos {
                let mut body = String::new();
                let mut c = combo;
                for (i, l) in lines.iter().enumerate() {
                    if i > 0 {
                        body.push_str(eol);
                    }
                    body.push_str(l);
                    body.push_str(BLANKS[c % BLANKS.len()]);
                    c /= BLANKS.len();
                }
                for trailing in 0..=8 {
                    let mut v = body.clone();
                    if trailing <= 5 {
                        for _ in 0..trailing {
                            v.push_str(eol);
                        }
                    } else {
                        // trailing lines that hold only blanks
                        v.push_str(eol);
                        v.push_str(["  ", "\t", " \t "][trailing - 6]);
                        if trailing == 8 {
                            v.push_str(eol);
                            v.push_str(" ");
                            v.push_str(eol);
                        }
                    }
                    if v == reference {
                        continue;
                    }
                    let d = match cx.conv_doc(&v, &sett) {
                        Some(d) => d,
                        None => return,
                    };
                    cx.compared();
                    if let Err(e) = same(&base, &d) {
                        cx.fail(
                            "variant-differs",
                            format!(
                                "variant {:?} (eol {:?}, {} trailing blank lines) renders differently from {:?}: {}",
                                v, eol, trailing, reference, e
                            ),
                        );
                        return;
                    }
                }
            }
        }
    }
}
