//! C08 — input text can never inject markup into the output document.
use crate::conv::Sett;
use crate::enumr;
use crate::runner::{Case, Cx, Prop, Scope, Tier};
use crate::xmlmini::{Child, Construct, Element};

pub struct C08;

/// payloads; `MK` is replaced by a unique marker name
const PAYLOADS: [&str; 28] = [
    "<script>MK()</script>",
    "</style><script>MK()</script>",
    "</text><MK/>",
    "</svg><MK/>",
    "<a href=\"MK\">x</a>",
    "\" onload=\"MK()",
    "' onload='MK()",
    "]]><MK/>",
    "<![CDATA[<MK/>]]>",
    "<!--MK-->",
    "--><MK/><!--",
    "<?MK x?>",
    "&MK;",
    "&#60;MK&#62;",
    "&lt;MK&gt;",
    "<MK",
    "MK>",
    "<MK x=\"1\"/>",
    "</g><MK/>",
    "<svg onload=MK()>",
    "<style>MK{}</style>",
    "<!DOCTYPE MK>",
    "<MK:x xmlns:MK=\"u\"/>",
    "\u{0}<MK/>",
    "<\u{1}MK/>",
    "} MK = {</style><MK/>",
    "\u{1}MK\u{8}\u{ffff}",
    "MK\u{b}\u{c}\u{fffe}",
];
const CHANNELS: [&str; 13] = [
    "plain", "quoted", "tag", "legend-name", "legend-decl", "tag-after-identifier", "legend-name-after-identifier",
    "plain-after-non-ascii", "quoted-after-non-ascii", "legend-decl-repeated-class", "legend-decl-third-entry",
    "quoted-backslash-before-markup", "quoted-between-escaped-quotes",
];
const CONTEXTS: [&str; 4] = ["alone", "in-box", "touching-line", "two-rows"];

fn build(channel: usize, context: usize, payload: &str) -> String {
    let body = match channel {
        0 => payload.to_string(),
        1 => format!("\"{}\"", payload),
        2 => format!("{{{}}}", payload),
        3 => return format!("{}# Legend:\n{} = {{fill:red}}\n", ctx_diagram(context), payload),
        // a valid identifier first: a grammar that accepts a valid prefix must still not let the rest through
        6 => return format!("{}# Legend:\nzz{} = {{fill:red}}\n", ctx_diagram(context), payload),
        5 => format!("{{zz{}}}", payload),
        // multi-byte characters in the same text run before the payload (2-, 3- and 4-byte encodings)
        7 => format!("Диаграмма потоков данных 一二三 𝔘𝔫𝔦 é {}", payload),
        8 => format!("\"Диаграмма 一二三 𝔘 é {}\"", payload),
        // the quoted-string escape character in front of every markup character, and escaped quotes around the payload
        11 => format!("\"{}\"", payload.replace('<', "\\<").replace('&', "\\&").replace('>', "\\>").replace('\'', "\\'")),
        12 => format!("\"\\\"{}\\\"\"", payload),
        9 => return format!("{}# Legend:\nzz = {{fill:red}}\nzz = {{{}}}\n", ctx_diagram(context), payload),
        10 => return format!("{}# Legend:\nza = {{fill:red}}\nzb = {{x:1}}\nzz = {{{}}}\nzc = {{y:2}}\n", ctx_diagram(context), payload),
        _ => return format!("{}# Legend:\nzz = {{{}}}\n", ctx_diagram(context), payload),
    };
    match context {
        0 => body,
        1 => {
            let w = enumr::display_cols(&body) + 2;
            format!("+{}+\n| {} |\n+{}+", "-".repeat(w), body, "-".repeat(w))
        }
        2 => format!("--{}--", body),
        _ => {
            let cs: Vec<char> = body.chars().collect();
            let h = cs.len() / 2;
            format!("{}\n{}", cs[..h].iter().collect::<String>(), cs[h..].iter().collect::<String>())
        }
    }
}

fn ctx_diagram(context: usize) -> &'static str {
    match context {
        0 => "",
        1 => "+----+\n|{zz}|\n+----+\n",
        2 => "--*\n",
        _ => "ab\ncd\n",
    }
}

fn allowed_attrs(el: &str) -> Option<&'static [&'static str]> {
    Some(match el {
        "svg" => &["xmlns", "width", "height", "class"],
        "style" | "defs" => &[],
        "g" => &["class"],
        "marker" => &["id", "viewBox", "refX", "refY", "markerWidth", "markerHeight", "orient"],
        "polygon" => &["points", "class"],
        "circle" => &["cx", "cy", "r", "class"],
        "rect" => &["x", "y", "width", "height", "rx", "class"],
        "line" => &["x1", "y1", "x2", "y2", "class"],
        "path" => &["d", "class"],
        "text" => &["x", "y", "class"],
        _ => return None,
    })
}

fn class_token_ok(t: &str) -> bool {
    let mut cs = t.chars();
    match cs.next() {
        Some(c) if c.is_ascii_alphabetic() || c == '_' => {}
        _ => return false,
    }
    cs.all(|c| c.is_ascii_alphanumeric() || c == '_')
}

fn value_ok(el: &str, attr: &str, v: &str) -> bool {
    match attr {
        "class" => v.split_whitespace().all(class_token_ok) && v.chars().all(|c| c == ' ' || c.is_ascii_alphanumeric() || c == '_'),
        "xmlns" => v == super::c02::SVG_NS,
        "points" => crate::svg::parse_points(v).is_ok(),
        "d" => crate::svg::parse_arc(v).is_ok(),
        "id" => v.chars().all(|c| c.is_ascii_alphanumeric() || c == '_'),
        "viewBox" => v.split(' ').count() == 4 && v.split(' ').all(|n| crate::svg::parse_num(n).is_ok()),
        "orient" => v == "auto-start-reverse",
        _ => {
            let _ = el;
            crate::svg::parse_num(v).is_ok()
        }
    }
}

/// walk the tree against the output grammar; `in_defs` relaxes nothing but the element set
fn walk(e: &Element, parent: &str, marker: &str, errs: &mut Vec<String>) {
    let attrs = match allowed_attrs(&e.name) {
        Some(a) => a,
        None => {
            errs.push(format!("foreign element <{}> inside <{}>", e.name, parent));
            return;
        }
    };
    let parent_ok = match e.name.as_str() {
        "svg" => parent.is_empty(),
        "style" | "defs" | "g" | "text" | "line" | "path" => parent == "svg" || (parent == "g" && !matches!(e.name.as_str(), "style" | "defs" | "g")),
        "rect" => parent == "svg" || parent == "g",
        "marker" => parent == "defs",
        "polygon" | "circle" => parent == "svg" || parent == "g" || parent == "marker",
        _ => false,
    };
    if !parent_ok {
        errs.push(format!("<{}> is not allowed inside <{}>", e.name, if parent.is_empty() { "(document)" } else { parent }));
    }
    for (n, v) in &e.attrs {
        if !attrs.contains(&n.as_str()) {
            errs.push(format!("foreign attribute {}={:?} on <{}>", n, v, e.name));
            continue;
        }
        if !value_ok(&e.name, n, v) {
            errs.push(format!("attribute {}={:?} on <{}> does not match its grammar", n, v, e.name));
        }
        if n != "class" && !marker.is_empty() && v.contains(marker) {
            errs.push(format!("marker inside attribute {}={:?}", n, v));
        }
    }
    if !marker.is_empty() && (e.name.contains(marker) || e.attrs.iter().any(|(n, _)| n.contains(marker))) {
        errs.push(format!("marker inside a name of <{}>", e.name));
    }
    let text_ok = e.name == "text" || e.name == "style";
    for c in &e.children {
        match c {
            Child::Elem(x) => {
                if text_ok {
                    errs.push(format!("element <{}> inside <{}>", x.name, e.name));
                } else {
                    walk(x, &e.name, marker, errs)
                }
            }
            Child::Text(t) => {
                if !text_ok && !t.trim().is_empty() {
                    errs.push(format!("character data {:?} directly inside <{}>", crate::runner::trunc(t, 40), e.name));
                }
            }
        }
    }
}

pub fn check_document(cx: &mut Cx, out: &str, marker: &str, what: &str) {
    cx.compared();
    let doc = match cx.xml_parse(out) {
        Ok(d) => d,
        Err(e) => {
            cx.fail("unparseable", format!("{}: {} at char {}", what, e.msg, e.pos));
            return;
        }
    };
    let bad: Vec<&Construct> = doc
        .constructs
        .iter()
        .filter(|c| matches!(c, Construct::Comment | Construct::Pi | Construct::Cdata | Construct::Doctype | Construct::XmlDecl))
        .collect();
    if !bad.is_empty() {
        cx.fail("foreign-construct", format!("{}: the output contains {:?}", what, bad));
        return;
    }
    let mut errs = vec![];
    walk(&doc.root, "", marker, &mut errs);
    // order grammar of the root: style? defs? backdrop? (shape|text)* g*
    let names: Vec<String> = doc
        .root
        .elems()
        .map(|e| if e.name == "rect" && e.attr("class") == Some("backdrop") { "backdrop".to_string() } else { e.name.clone() })
        .collect();
    let mut stage = 0;
    for n in &names {
        let st = match n.as_str() {
            "style" => 1,
            "defs" => 2,
            "backdrop" => 3,
            "g" => 5,
            _ => 4,
        };
        if st < stage || (st == stage && st <= 3) {
            errs.push(format!("root children out of order: {:?}", names));
            break;
        }
        stage = st;
    }
    if !errs.is_empty() {
        cx.fail("injection", format!("{}: {}", what, errs.into_iter().take(4).collect::<Vec<_>>().join("; ")));
    }
}

impl Prop for C08 {
    fn id(&self) -> &'static str {
        "C08"
    }
    fn rule(&self) -> &'static str {
        "28 markup payloads (script, style/text/svg/g end tags, attributes, CDATA, comments, PIs, entity and character references, doctype, namespaces, control characters, legend break-out), each with a unique marker, \
         and every string up to length 3 (thorough 4) over {<,>,&,\",',/,!,-,?,;,=,a,space}, in each of 5 channels (plain cells, quoted string, {tag}, legend name, legend declaration) x 4 contexts (alone, inside a box so a tag attaches, touching a line, split over two rows), \
         with default settings; the payloads additionally through to_svg, the compressed form and to_svg_with_override_size, and with every combination of the three include_* switches. Each output must parse, contain no comment/PI/CDATA/doctype, use only svgbob's element and attribute vocabulary in svgbob's nesting and order, have every attribute value match its numeric/path/points/identifier grammar, \
         and show the marker only in character data of text/style or as a class token. distinct_nontrivial = distinct (channel, context, element multiset) outcomes"
    }
    fn scopes(&self, tier: Tier, _seed: u64) -> Vec<Scope> {
        let n = if tier == Tier::Quick { 3 } else { 4 };
        vec![
            Scope::new("payloads", "payload x channel x context", |f| {
                for p in 0..PAYLOADS.len() {
                    for ch in 0..CHANNELS.len() {
                        for c in 0..CONTEXTS.len() {
                            f(Case::sn("", vec![p as i64, ch as i64, c as i64]));
                        }
                    }
                }
            }),
            Scope::new("strings", "every string over the 13 markup characters up to the length bound x channel x context {alone, in-box}", move |f| {
                let a = ['<', '>', '&', '"', '\'', '/', '!', '-', '?', ';', '=', 'a', ' '];
                enumr::strings_upto(&a, n, &mut |s| {
                    let st: String = s.iter().collect();
                    for ch in 0..CHANNELS.len() {
                        for c in 0..2 {
                            f(Case::snx("", vec![-1, ch as i64, c as i64], vec![st.clone()]));
                        }
                    }
                })
            }),
        ]
    }
    fn check(&self, _scope: &str, case: &Case, cx: &mut Cx) {
        let (p, ch, c) = (case.n[0], case.n[1] as usize, case.n[2] as usize);
        let (payload, marker) = if p >= 0 {
            let m = format!("MK{}x{}y{}", p, ch, c);
            (PAYLOADS[p as usize].replace("MK", &m), m)
        } else {
            (case.x[0].clone(), String::new())
        };
        let input = build(ch, c, &payload);
        let out = match cx.conv(&input, &Sett::default_()) {
            Some(o) => o,
            None => return,
        };
        let what = format!("channel {} context {} payload {:?} (input {:?})", CHANNELS[ch], CONTEXTS[c], payload, input);
        let nv = cx.viols.len();
        check_document(cx, &out, &marker, &what);
        if p >= 0 && cx.viols.len() == nv {
            // every other entry point must be just as tight
            use crate::conv::Entry;
            for e in [Entry::ToSvg, Entry::Compressed, Entry::OverrideSize(640.0, 480.0)] {
                if let Some(o) = cx.conv_entry(&input, &Sett::default_(), e) {
                    check_document(cx, &o, &marker, &format!("{} via {:?}", what, e));
                    if cx.viols.len() > nv {
                        return;
                    }
                }
            }
            // and every combination of the include_* switches (a sink that is skipped by one path must not come back raw by another)
            for m in 0..7u8 {
                let s = Sett { backdrop: m & 1 != 0, styles: m & 2 != 0, defs: m & 4 != 0, ..Sett::default_() };
                for e in [Entry::WithSettings, Entry::OverrideSize(640.0, 480.0)] {
                    if let Some(o) = cx.conv_entry(&input, &s, e) {
                        check_document(cx, &o, &marker, &format!("{} via {:?} with backdrop={} styles={} defs={}", what, e, s.backdrop, s.styles, s.defs));
                        if cx.viols.len() > nv {
                            return;
                        }
                    }
                }
            }
        }
        if cx.viols.len() == nv {
            if let Ok(d) = crate::svg::parse(&out) {
                cx.outcome(&(ch, c, d.skeleton()));
            }
        }
    }
}
