#![allow(dead_code)]
mod conv;
mod enumr;
mod props;
mod refmodel;
mod runner;
mod shapes;
mod svg;
mod xmlmini;

use runner::Tier;

fn usage() -> ! {
    eprintln!("usage: svgmc run <PROP> <quick|thorough> | replay <file> | ref | xmldump | catalog");
    std::process::exit(2)
}

fn main() {
    let args: Vec<String> = std::env::args().collect();
    if args.len() < 2 {
        usage();
    }
    let seed: u64 = std::env::var("VERIF_SEED").ok().and_then(|s| s.parse().ok()).unwrap_or(0);
    match args[1].as_str() {
        "run" => {
            if args.len() < 4 {
                usage();
            }
            let tier = Tier::parse(&args[3]).unwrap_or_else(|| usage());
            match props::by_id(&args[2]) {
                Some(p) => std::process::exit(runner::run(p.as_ref(), tier, seed)),
                None => {
                    println!("MACHINERY-ERROR: unknown property {}", args[2]);
                    std::process::exit(2)
                }
            }
        }
        "worker" => {
            // worker <prop> <tier> <seed> <k> <n> <from_scope> <from_idx>
            let p = props::by_id(&args[2]).expect("property");
            let tier = Tier::parse(&args[3]).expect("tier");
            let seed: u64 = args[4].parse().expect("seed");
            let k: u64 = args[5].parse().expect("k");
            let n: u64 = args[6].parse().expect("n");
            let fs: usize = args[7].parse().expect("from scope");
            let fi: u64 = args[8].parse().expect("from idx");
            std::process::exit(runner::worker(p.as_ref(), tier, seed, k, n, fs, fi));
        }
        "replay" => {
            if args.len() < 3 {
                usage();
            }
            let txt = match std::fs::read_to_string(&args[2]) {
                Ok(t) => t,
                Err(e) => {
                    println!("MACHINERY-ERROR: cannot read {}: {}", args[2], e);
                    std::process::exit(2)
                }
            };
            let v: serde_json::Value = match serde_json::from_str(&txt) {
                Ok(v) => v,
                Err(e) => {
                    println!("MACHINERY-ERROR: {}: {}", args[2], e);
                    std::process::exit(2)
                }
            };
            let id = v["property"].as_str().unwrap_or("");
            match props::by_id(id) {
                Some(p) => std::process::exit(runner::replay(p.as_ref(), &v, &args[2])),
                None => {
                    println!("MACHINERY-ERROR: unknown property {:?} in replay file", id);
                    std::process::exit(2)
                }
            }
        }
        "ref" => props::reference_service(),
        "orderhash" => {
            // orderhash <corpus kind> <perm> <nperms>: convert the corpus in a permuted order, print the output hashes in corpus order
            let kind: u32 = args[2].parse().expect("corpus kind");
            let perm: usize = args[3].parse().expect("perm");
            let nperms: usize = args[4].parse().expect("nperms");
            props::orderhash_service(kind, perm, nperms)
        }
        "xmldump" => props::xmldump_service(),
        "catalog" => shapes::print_live_catalog(),
        _ => usage(),
    }
}
