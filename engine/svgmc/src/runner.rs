//! Orchestration: a parent process partitions every scope over isolated
//! worker sub-processes, aggregates their reports, applies the known-findings
//! list, writes evidence and replay files and decides the exit status.
//!
//! exit 0 = property held on everything explored, 1 = violation,
//! 2 = machinery error (never a verdict).
use crate::conv::{self, Entry, Sett};
use crate::svg::{self, Doc, SvgErr};
use serde_json::{json, Value};
use std::collections::{BTreeMap, HashSet};
use std::hash::{Hash, Hasher};
use std::io::{BufRead, BufReader, Write};
use std::os::unix::fs::FileExt;
use std::os::unix::process::ExitStatusExt;
use std::sync::atomic::{AtomicU64, Ordering};
use std::sync::{Arc, Mutex};
use std::time::Instant;

pub const VERIF_DIR: &str = "/verif";

#[derive(Debug, Clone, Copy, PartialEq, Eq)]
pub enum Tier {
    Quick,
    Thorough,
}

impl Tier {
    pub fn name(self) -> &'static str {
        match self {
            Tier::Quick => "quick",
            Tier::Thorough => "thorough",
        }
    }
    pub fn parse(s: &str) -> Option<Tier> {
        match s {
            "quick" => Some(Tier::Quick),
            "thorough" => Some(Tier::Thorough),
            _ => None,
        }
    }
}

/// One enumerated case: a string plus optional integer and string parameters.
#[derive(Debug, Clone, PartialEq)]
pub struct Case {
    pub s: String,
    pub n: Vec<i64>,
    pub x: Vec<String>,
}

impl Case {
    pub fn s<T: Into<String>>(s: T) -> Case {
        Case {
            s: s.into(),
            n: vec![],
            x: vec![],
        }
    }
    pub fn sn<T: Into<String>>(s: T, n: Vec<i64>) -> Case {
        Case {
            s: s.into(),
            n,
            x: vec![],
        }
    }
    pub fn snx<T: Into<String>>(s: T, n: Vec<i64>, x: Vec<String>) -> Case {
        Case { s: s.into(), n, x }
    }
    pub fn to_json(&self) -> Value {
        json!({"s": self.s, "s_hex": hex(&self.s), "n": self.n, "x": self.x})
    }
    pub fn from_json(v: &Value) -> Case {
        let s = match v.get("s_hex").and_then(|h| h.as_str()) {
            Some(h) => unhex(h),
            None => v.get("s").and_then(|s| s.as_str()).unwrap_or("").to_string(),
        };
        Case {
            s,
            n: v.get("n")
                .and_then(|a| a.as_array())
                .map(|a| a.iter().filter_map(|x| x.as_i64()).collect())
                .unwrap_or_default(),
            x: v.get("x")
                .and_then(|a| a.as_array())
                .map(|a| a.iter().filter_map(|x| x.as_str().map(|s| s.to_string())).collect())
                .unwrap_or_default(),
        }
    }
}

pub fn hex(s: &str) -> String {
    s.bytes().map(|b| format!("{:02x}", b)).collect()
}
pub fn unhex(h: &str) -> String {
    let b: Vec<u8> = (0..h.len() / 2)
        .filter_map(|i| u8::from_str_radix(&h[2 * i..2 * i + 2], 16).ok())
        .collect();
    String::from_utf8_lossy(&b).into_owned()
}

pub type Gen = Box<dyn Fn(&mut dyn FnMut(Case)) + Send + Sync>;

pub struct Scope {
    pub name: String,
    pub about: String,
    pub gen: Gen,
}

impl Scope {
    pub fn new<F>(name: &str, about: &str, gen: F) -> Scope
    where
        F: Fn(&mut dyn FnMut(Case)) + Send + Sync + 'static,
    {
        Scope {
            name: name.to_string(),
            about: about.to_string(),
            gen: Box::new(gen),
        }
    }
}

pub trait Prop: Sync {
    fn id(&self) -> &'static str;
    /// how cases are enumerated and which outcomes count as non-trivial
    fn rule(&self) -> &'static str;
    fn assumptions(&self) -> Vec<String> {
        vec![]
    }
    fn scopes(&self, tier: Tier, seed: u64) -> Vec<Scope>;
    fn check(&self, scope: &str, case: &Case, cx: &mut Cx);
    /// per-call stall cap in seconds
    fn call_cap_s(&self, _scope: &str) -> u64 {
        20
    }
    /// may string-only cases of this scope be shrunk by deleting characters
    fn shrinkable(&self, _scope: &str) -> bool {
        false
    }
}

#[derive(Debug, Clone)]
pub struct Viol {
    pub clause: String,
    pub detail: String,
    pub kf: Option<String>,
    /// a more precise case to record for replay (e.g. the exact schedule instead of the explored subtree)
    pub case: Option<Case>,
}

/// Per-worker context handed to the checks
pub struct Cx {
    pub prop: String,
    pub viols: Vec<Viol>,
    pub machinery: Vec<String>,
    pub conversions: u64,
    pub comparisons: u64,
    pub outcomes: HashSet<u64>,
    pub counters: BTreeMap<String, u64>,
    /// when set, every distinct output seen by `xml_ok` is appended here for the expat cross-check
    pub out_file: Option<std::io::BufWriter<std::fs::File>>,
    pub seen_out: HashSet<u64>,
}

pub fn crc32(data: &[u8]) -> u32 {
    let mut crc: u32 = 0xFFFF_FFFF;
    for b in data {
        crc ^= *b as u32;
        for _ in 0..8 {
            let mask = (!(crc & 1)).wrapping_add(1);
            crc = (crc >> 1) ^ (0xEDB8_8320 & mask);
        }
    }
    !crc
}

pub fn hash64<T: Hash>(t: &T) -> u64 {
    // FNV-1a via a fixed-key hasher so that hashes are stable across processes
    struct Fnv(u64);
    impl Hasher for Fnv {
        fn finish(&self) -> u64 {
            self.0
        }
        fn write(&mut self, bytes: &[u8]) {
            for b in bytes {
                self.0 ^= *b as u64;
                self.0 = self.0.wrapping_mul(0x100000001b3);
            }
        }
    }
    let mut h = Fnv(0xcbf29ce484222325);
    t.hash(&mut h);
    h.finish()
}

impl Cx {
    pub fn new(prop: &str) -> Cx {
        Cx {
            prop: prop.to_string(),
            viols: vec![],
            machinery: vec![],
            conversions: 0,
            comparisons: 0,
            outcomes: HashSet::new(),
            counters: BTreeMap::new(),
            out_file: None,
            seen_out: HashSet::new(),
        }
    }
    /// strict well-formedness check with the in-house parser; records the
    /// distinct documents (verdict, crc32 of the canonical dump, hex) for expat
    pub fn xml_parse(&mut self, out: &str) -> Result<crate::xmlmini::Document, crate::xmlmini::XmlError> {
        let r = crate::xmlmini::parse(out);
        if self.out_file.is_some() {
            let h = hash64(&out);
            if self.seen_out.insert(h) {
                let line = match &r {
                    Ok(d) => {
                        let mut s = String::new();
                        crate::xmlmini::dump(&d.root, &mut s);
                        format!("1 {} {}\n", crc32(s.as_bytes()), hex(out))
                    }
                    Err(_) => format!("0 0 {}\n", hex(out)),
                };
                if let Some(f) = self.out_file.as_mut() {
                    let _ = f.write_all(line.as_bytes());
                }
            }
        }
        r
    }
    pub fn fail(&mut self, clause: &str, detail: String) {
        self.viols.push(Viol {
            clause: clause.to_string(),
            detail,
            kf: None,
            case: None,
        });
    }
    /// a violation whose replay file should hold `case` (a narrowed form of the explored case)
    pub fn fail_case(&mut self, clause: &str, detail: String, case: Case) {
        self.viols.push(Viol {
            clause: clause.to_string(),
            detail,
            kf: None,
            case: Some(case),
        });
    }
    /// a violation that matches the narrow predicate of known finding `kf`
    pub fn fail_kf(&mut self, clause: &str, detail: String, kf: &str) {
        self.viols.push(Viol {
            clause: clause.to_string(),
            detail,
            kf: Some(kf.to_string()),
            case: None,
        });
    }
    pub fn tally(&mut self, key: &str) {
        *self.counters.entry(key.to_string()).or_insert(0) += 1;
    }
    pub fn tally_n(&mut self, key: &str, n: u64) {
        *self.counters.entry(key.to_string()).or_insert(0) += n;
    }
    /// one reference-model prediction compared with the implementation
    pub fn compared(&mut self) {
        self.comparisons += 1;
    }
    /// record a distinct non-trivial outcome
    pub fn outcome<T: Hash>(&mut self, key: &T) {
        self.outcomes.insert(hash64(key));
    }
    /// call the library; a panic is a violation (clause `panic`)
    pub fn conv_entry(&mut self, input: &str, s: &Sett, e: Entry) -> Option<String> {
        self.conversions += 1;
        arm_watchdog(input.len());
        match conv::convert(input, s, e) {
            Ok(o) => Some(o),
            Err(msg) => {
                self.fail("panic", format!("entry {:?} settings {} panicked: {}", e, s.to_json(), msg));
                None
            }
        }
    }
    pub fn conv(&mut self, input: &str, s: &Sett) -> Option<String> {
        self.conv_entry(input, s, Entry::WithSettings)
    }
    /// parse an output into the typed model; not well-formed / bad numbers
    /// are violations (clause `unparseable`), unknown vocabulary is a
    /// machinery error unless `strict_vocab`
    pub fn parse(&mut self, out: &str) -> Option<Doc> {
        match svg::parse(out) {
            Ok(d) => Some(d),
            Err(SvgErr::Unknown(u)) => {
                self.machinery
                    .push(format!("output uses vocabulary the SVG model does not know: {}", u));
                None
            }
            Err(e) => {
                self.fail("unparseable", format!("{}", e));
                None
            }
        }
    }
    pub fn conv_doc(&mut self, input: &str, s: &Sett) -> Option<Doc> {
        let o = self.conv(input, s)?;
        self.parse(&o)
    }
}

// ---------------------------------------------------------------------------
// worker

static CASE_START_MS: AtomicU64 = AtomicU64::new(0);
/// the stall cap that applies to the call in progress (ms)
static CALL_CAP_MS: AtomicU64 = AtomicU64::new(20_000);
/// the scope's base cap (ms)
static SCOPE_CAP_MS: AtomicU64 = AtomicU64::new(20_000);
static T0: std::sync::OnceLock<Instant> = std::sync::OnceLock::new();

/// called before every library call: the watchdog measures one call, not a whole case;
/// inputs above 4 kB get a cap that grows quadratically with their size (conversion time does)
pub fn arm_watchdog_pub(input_len: usize) {
    arm_watchdog(input_len)
}

fn arm_watchdog(input_len: usize) {
    if let Some(t0) = T0.get() {
        if CASE_START_MS.load(Ordering::SeqCst) != 0 {
            let kb = input_len as u64 / 1000;
            let extra = if kb > 4 { kb * kb * 60 } else { 0 };
            CALL_CAP_MS.store(SCOPE_CAP_MS.load(Ordering::SeqCst) + extra, Ordering::SeqCst);
            CASE_START_MS.store(now_ms(t0), Ordering::SeqCst);
        }
    }
}

fn now_ms(t0: &Instant) -> u64 {
    t0.elapsed().as_millis() as u64 + 1
}

fn emit(v: Value) {
    let out = std::io::stdout();
    let mut l = out.lock();
    let _ = writeln!(l, "@@J {}", v);
    let _ = l.flush();
}

fn run_dir(prop: &str) -> String {
    let d = format!("{}/target/run/{}", VERIF_DIR, prop);
    let _ = std::fs::create_dir_all(&d);
    d
}

pub fn budget_s(tier: Tier) -> u64 {
    std::env::var("VERIF_BUDGET_S")
        .ok()
        .and_then(|s| s.parse().ok())
        .unwrap_or(match tier {
            Tier::Quick => 120,
            Tier::Thorough => 3600,
        })
}

/// shrink a string-only failing case: delete lines, then characters, while
/// the same clause keeps failing
fn shrink(prop: &dyn Prop, scope: &str, case: &Case, clause: &str, kf: &Option<String>) -> Option<(Case, String)> {
    if !case.n.is_empty() || !case.x.is_empty() || !prop.shrinkable(scope) {
        return None;
    }
    let last_detail = std::cell::RefCell::new(String::new());
    let fails = |s: &str| -> bool {
        let mut cx = Cx::new(prop.id());
        let c = Case::s(s);
        let r = std::panic::catch_unwind(std::panic::AssertUnwindSafe(|| prop.check(scope, &c, &mut cx)));
        if r.is_err() {
            return false;
        }
        match cx.viols.iter().find(|v| v.clause == clause && v.kf == *kf) {
            Some(v) => {
                *last_detail.borrow_mut() = v.detail.clone();
                true
            }
            None => false,
        }
    };
    let mut cur: Vec<char> = case.s.chars().collect();
    let mut budget = 400;
    let mut progress = true;
    while progress && budget > 0 {
        progress = false;
        let mut i = 0;
        while i < cur.len() && budget > 0 {
            // try deleting char i, then blanking it
            let mut cand = cur.clone();
            cand.remove(i);
            budget -= 1;
            let cs: String = cand.iter().collect();
            if fails(&cs) {
                cur = cand;
                progress = true;
                continue;
            }
            if cur[i] != ' ' && cur[i] != '\n' {
                let mut cand = cur.clone();
                cand[i] = ' ';
                budget -= 1;
                let cs: String = cand.iter().collect();
                if fails(&cs) {
                    cur = cand;
                    progress = true;
                }
            }
            i += 1;
        }
    }
    let s: String = cur.iter().collect();
    if s != case.s && fails(&s) {
        let d = last_detail.borrow().clone();
        Some((Case::s(s), d))
    } else {
        None
    }
}

pub fn worker(prop: &dyn Prop, tier: Tier, seed: u64, k: u64, n: u64, from_scope: usize, from_idx: u64) -> i32 {
    conv::install_quiet_panic_hook();
    let t0 = Instant::now();
    let _ = T0.set(t0);
    let budget_ms = budget_s(tier) * 1000;
    let cur_path = format!("{}/w{}.cur", run_dir(prop.id()), k);
    let cur_file = std::fs::OpenOptions::new()
        .create(true)
        .write(true)
        .truncate(true)
        .open(&cur_path)
        .expect("cur file");
    let current: Arc<Mutex<String>> = Arc::new(Mutex::new(String::new()));
    let cap_ms: Arc<AtomicU64> = Arc::new(AtomicU64::new(20_000));
    {
        let current = current.clone();
        let cap_ms = cap_ms.clone();
        let t0 = t0;
        std::thread::spawn(move || loop {
            std::thread::sleep(std::time::Duration::from_millis(250));
            let st = CASE_START_MS.load(Ordering::SeqCst);
            if st != 0 {
                let el = now_ms(&t0).saturating_sub(st);
                let _ = &cap_ms;
                if el > CALL_CAP_MS.load(Ordering::SeqCst) {
                    let cur = current.lock().map(|c| c.clone()).unwrap_or_default();
                    let out = std::io::stdout();
                    let mut l = out.lock();
                    let _ = writeln!(l, "\n@@J {}", json!({"t":"stall","ms":el,"cur":cur}));
                    let _ = l.flush();
                    unsafe { libc::_exit(3) };
                }
            }
        });
    }
    let scopes = prop.scopes(tier, seed);
    let mut cx = Cx::new(prop.id());
    if std::env::var("VERIF_RECORD_OUTPUTS").is_ok() && from_scope == 0 && from_idx == 0 {
        if let Ok(f) = std::fs::File::create(format!("{}/outputs-{}.txt", run_dir(prop.id()), k)) {
            cx.out_file = Some(std::io::BufWriter::new(f));
        }
    }
    let mut scope_reports: Vec<Value> = vec![];
    let mut samples: Vec<Value> = vec![];
    let mut viol_counts: BTreeMap<String, u64> = BTreeMap::new();
    let mut states: u64 = 0;
    for (si, sc) in scopes.iter().enumerate() {
        if si < from_scope {
            continue;
        }
        cap_ms.store(prop.call_cap_s(&sc.name) * 1000, Ordering::SeqCst);
        SCOPE_CAP_MS.store(prop.call_cap_s(&sc.name) * 1000, Ordering::SeqCst);
        CALL_CAP_MS.store(prop.call_cap_s(&sc.name) * 1000, Ordering::SeqCst);
        let mut idx: u64 = 0;
        let mut done: u64 = 0;
        let mut skipped_budget: u64 = 0;
        let mut first: Option<Value> = None;
        let mut last: Option<Value> = None;
        let scope_name = sc.name.clone();
        let mut f = |case: Case| {
            let my = idx % n == k;
            let i = idx;
            idx += 1;
            if !my {
                return;
            }
            if si == from_scope && i < from_idx {
                return;
            }
            if now_ms(&t0) > budget_ms {
                skipped_budget += 1;
                return;
            }
            let cj = json!({"scope": scope_name, "scope_index": si, "idx": i, "case": case.to_json()});
            let cs = cj.to_string();
            // visible to the parent even if this process aborts
            let hdr = format!("{:012}", cs.len());
            let _ = cur_file.write_all_at(hdr.as_bytes(), 0);
            let _ = cur_file.write_all_at(cs.as_bytes(), 12);
            if let Ok(mut c) = current.lock() {
                *c = cs;
            }
            CASE_START_MS.store(now_ms(&t0), Ordering::SeqCst);
            let nv0 = cx.viols.len();
            let nm0 = cx.machinery.len();
            let r = std::panic::catch_unwind(std::panic::AssertUnwindSafe(|| {
                prop.check(&scope_name, &case, &mut cx);
            }));
            CASE_START_MS.store(0, Ordering::SeqCst);
            if r.is_err() {
                cx.machinery.push(format!("oracle code panicked: {}", conv::last_panic()));
            }
            done += 1;
            states += 1;
            if cx.machinery.len() > nm0 {
                for m in cx.machinery.drain(nm0..).collect::<Vec<_>>() {
                    let c = viol_counts.entry("@machinery".into()).or_insert(0);
                    *c += 1;
                    if *c <= 5 {
                        emit(json!({"t":"m","msg":m,"scope":scope_name,"idx":i,"case":case.to_json()}));
                    }
                }
            }
            if cx.viols.len() > nv0 {
                let vs: Vec<Viol> = cx.viols.drain(nv0..).collect();
                for v in vs {
                    let key = format!("{}|{}", v.clause, v.kf.clone().unwrap_or_default());
                    let c = viol_counts.entry(key).or_insert(0);
                    *c += 1;
                    if *c <= 40 {
                        let shrunk = if *c <= 3 {
                            CASE_START_MS.store(0, Ordering::SeqCst);
                            shrink(prop, &scope_name, &case, &v.clause, &v.kf)
                        } else {
                            None
                        };
                        let (sh_case, sh_detail) = match shrunk {
                            Some((c, d)) => (Some(c.to_json()), Some(d)),
                            None => (None, None),
                        };
                        let rec_case = v.case.as_ref().unwrap_or(&case);
                        emit(json!({"t":"v","clause":v.clause,"detail":v.detail,"kf":v.kf,
                            "scope":scope_name,"idx":i,"case":rec_case.to_json(),
                            "shrunk": sh_case, "shrunk_detail": sh_detail}));
                    }
                }
            }
            if first.is_none() {
                first = Some(json!({"scope": scope_name, "idx": i, "case": case.to_json()}));
            }
            if done % 4096 == 1 || k == 0 {
                last = Some(json!({"scope": scope_name, "idx": i, "case": case.to_json()}));
            }
        };
        (sc.gen)(&mut f);
        if let Some(f) = first {
            samples.push(f);
        }
        if let Some(l) = last {
            samples.push(l);
        }
        scope_reports.push(json!({"si": si, "name": sc.name, "about": sc.about, "size": idx, "done": done, "skipped_budget": skipped_budget}));
    }
    if let Some(f) = cx.out_file.as_mut() {
        let _ = f.flush();
    }
    let outcomes: Vec<u64> = cx.outcomes.iter().cloned().collect();
    emit(json!({"t":"end","k":k,"conv":cx.conversions,"cmp":cx.comparisons,"states":states,
        "counters":cx.counters,"outcomes":outcomes,"scopes":scope_reports,"samples":samples,
        "viol_counts":viol_counts}));
    0
}

// ---------------------------------------------------------------------------
// parent

struct WorkerResult {
    lines: Vec<Value>,
    status: std::process::ExitStatus,
    k: u64,
}

fn spawn_worker(prop: &str, tier: Tier, seed: u64, k: u64, n: u64, fs: usize, fi: u64) -> std::io::Result<WorkerResult> {
    let exe = std::env::current_exe()?;
    let errf = std::fs::File::create(format!("{}/w{}.err", run_dir(prop), k))?;
    let mut child = std::process::Command::new(exe)
        .args([
            "worker",
            prop,
            tier.name(),
            &seed.to_string(),
            &k.to_string(),
            &n.to_string(),
            &fs.to_string(),
            &fi.to_string(),
        ])
        .stdin(std::process::Stdio::null())
        .stdout(std::process::Stdio::piped())
        .stderr(errf)
        .spawn()?;
    let out = child.stdout.take().unwrap();
    let mut lines = vec![];
    let mut rd = BufReader::new(out);
    let mut buf = Vec::new();
    loop {
        buf.clear();
        match rd.read_until(b'\n', &mut buf) {
            Ok(0) => break,
            Ok(_) => {
                let l = String::from_utf8_lossy(&buf);
                if let Some(rest) = l.trim_end().strip_prefix("@@J ") {
                    if let Ok(v) = serde_json::from_str::<Value>(rest) {
                        lines.push(v);
                    }
                }
            }
            Err(_) => break,
        }
    }
    let status = child.wait()?;
    Ok(WorkerResult { lines, status, k })
}

fn read_cur(prop: &str, k: u64) -> Option<Value> {
    let b = std::fs::read(format!("{}/w{}.cur", run_dir(prop), k)).ok()?;
    if b.len() < 12 {
        return None;
    }
    let len: usize = std::str::from_utf8(&b[..12]).ok()?.trim().parse().ok()?;
    let body = b.get(12..12 + len)?;
    serde_json::from_slice(body).ok()
}

pub struct Known {
    pub findings: Vec<Value>,
}

pub fn load_known() -> Result<Known, String> {
    let p = format!("{}/known_findings.json", VERIF_DIR);
    match std::fs::read_to_string(&p) {
        Ok(s) => {
            let v: Value = serde_json::from_str(&s).map_err(|e| format!("{}: {}", p, e))?;
            Ok(Known {
                findings: v.get("findings").and_then(|f| f.as_array()).cloned().unwrap_or_default(),
            })
        }
        Err(_) => Ok(Known { findings: vec![] }),
    }
}

impl Known {
    pub fn lookup(&self, prop: &str, kf: &str) -> Option<&Value> {
        self.findings.iter().find(|f| {
            f.get("property").and_then(|p| p.as_str()) == Some(prop) && f.get("id").and_then(|p| p.as_str()) == Some(kf)
        })
    }
}

pub fn write_replay(prop: &str, clause: &str, scope: &str, case: &Value, detail: &str, extra: Value) -> String {
    let dir = format!("{}/replays/{}", VERIF_DIR, prop);
    let _ = std::fs::create_dir_all(&dir);
    let h = hash64(&(clause, scope, case.to_string()));
    let clause_s: String = clause.chars().map(|c| if c.is_ascii_alphanumeric() { c } else { '_' }).collect();
    let path = format!("{}/{}-{:016x}.json", dir, clause_s, h);
    let v = json!({"property": prop, "clause": clause, "scope": scope, "case": case, "detail": detail, "extra": extra,
        "replay_cmd": format!("./check replay {}", path)});
    let _ = std::fs::write(&path, serde_json::to_string_pretty(&v).unwrap());
    path
}

pub fn run(prop: &dyn Prop, tier: Tier, seed: u64) -> i32 {
    let t0 = Instant::now();
    let id = prop.id();
    let known = match load_known() {
        Ok(k) => k,
        Err(e) => {
            println!("MACHINERY-ERROR: {}", e);
            return 2;
        }
    };
    let n: u64 = std::env::var("VERIF_WORKERS")
        .ok()
        .and_then(|s| s.parse().ok())
        .unwrap_or_else(|| std::thread::available_parallelism().map(|p| p.get() as u64).unwrap_or(8).min(16));
    let mut handles = vec![];
    for k in 0..n {
        let id = id.to_string();
        handles.push(std::thread::spawn(move || {
            // relaunch after an abort/stall so the rest of the share is still explored
            let mut all: Vec<WorkerResult> = vec![];
            let mut from = (0usize, 0u64);
            for _attempt in 0..8 {
                let r = match spawn_worker(&id, tier, seed, k, n, from.0, from.1) {
                    Ok(r) => r,
                    Err(e) => {
                        return Err(format!("cannot run worker {}: {}", k, e));
                    }
                };
                let ended = r.lines.iter().any(|l| l["t"] == "end");
                let cur = if ended { None } else { read_cur(&id, k) };
                all.push(r);
                if ended {
                    break;
                }
                match cur {
                    Some(c) => {
                        let si = c["scope_index"].as_u64().unwrap_or(0) as usize;
                        let idx = c["idx"].as_u64().unwrap_or(0);
                        from = (si, idx + 1);
                        let last = all.last_mut().unwrap();
                        last.lines.push(json!({"t":"died","cur":c}));
                    }
                    None => return Err(format!("worker {} died before its first case", k)),
                }
            }
            Ok(all)
        }));
    }
    let mut machinery: Vec<String> = vec![];
    let mut viols: Vec<Value> = vec![];
    let mut conv = 0u64;
    let mut cmp = 0u64;
    let mut states = 0u64;
    let mut counters: BTreeMap<String, u64> = BTreeMap::new();
    let mut outcomes: HashSet<u64> = HashSet::new();
    let mut scope_tot: BTreeMap<u64, (String, String, u64, u64, u64)> = BTreeMap::new();
    let mut samples: Vec<Value> = vec![];
    let mut viol_counts: BTreeMap<String, u64> = BTreeMap::new();
    let mut incomplete_worker = false;
    for h in handles {
        match h.join() {
            Ok(Ok(all)) => {
                let mut ended = false;
                for r in all {
                    for l in r.lines {
                        match l["t"].as_str().unwrap_or("") {
                            "v" => viols.push(l),
                            "m" => machinery.push(format!(
                                "{} (scope {} case {})",
                                l["msg"].as_str().unwrap_or(""),
                                l["scope"].as_str().unwrap_or(""),
                                l["case"]["s"]
                            )),
                            "stall" => {
                                let cur: Value = serde_json::from_str(l["cur"].as_str().unwrap_or("{}")).unwrap_or(json!({}));
                                viols.push(json!({"t":"v","clause":"stall","detail":format!("call did not return within the cap ({} ms elapsed)", l["ms"]),
                                    "kf":null,"scope":cur["scope"],"idx":cur["idx"],"case":cur["case"]}));
                                *viol_counts.entry("stall|".into()).or_insert(0) += 1;
                            }
                            "died" => {
                                // a stall line is followed by a died marker as well: only report aborts here
                                let by_stall = r.status.code() == Some(3);
                                if !by_stall {
                                    let cur = &l["cur"];
                                    let how = match r.status.signal() {
                                        Some(s) => format!("killed by signal {}", s),
                                        None => format!("exit status {:?}", r.status.code()),
                                    };
                                    viols.push(json!({"t":"v","clause":"abort","detail":format!("worker process died during this call: {}", how),
                                        "kf":null,"scope":cur["scope"],"idx":cur["idx"],"case":cur["case"]}));
                                    *viol_counts.entry("abort|".into()).or_insert(0) += 1;
                                }
                            }
                            "end" => {
                                ended = true;
                                conv += l["conv"].as_u64().unwrap_or(0);
                                cmp += l["cmp"].as_u64().unwrap_or(0);
                                states += l["states"].as_u64().unwrap_or(0);
                                if let Some(c) = l["counters"].as_object() {
                                    for (k, v) in c {
                                        *counters.entry(k.clone()).or_insert(0) += v.as_u64().unwrap_or(0);
                                    }
                                }
                                if let Some(c) = l["viol_counts"].as_object() {
                                    for (k, v) in c {
                                        *viol_counts.entry(k.clone()).or_insert(0) += v.as_u64().unwrap_or(0);
                                    }
                                }
                                if let Some(o) = l["outcomes"].as_array() {
                                    for x in o {
                                        if let Some(u) = x.as_u64() {
                                            outcomes.insert(u);
                                        }
                                    }
                                }
                                if let Some(sc) = l["scopes"].as_array() {
                                    for s in sc {
                                        let e = scope_tot.entry(s["si"].as_u64().unwrap_or(0)).or_insert((
                                            s["name"].as_str().unwrap_or("").to_string(),
                                            s["about"].as_str().unwrap_or("").to_string(),
                                            0,
                                            0,
                                            0,
                                        ));
                                        e.2 = e.2.max(s["size"].as_u64().unwrap_or(0));
                                        e.3 += s["done"].as_u64().unwrap_or(0);
                                        e.4 += s["skipped_budget"].as_u64().unwrap_or(0);
                                    }
                                }
                                if let Some(sm) = l["samples"].as_array() {
                                    if r.k == 0 || r.k == n - 1 {
                                        samples.extend(sm.iter().cloned());
                                    }
                                }
                            }
                            _ => {}
                        }
                    }
                }
                if !ended {
                    incomplete_worker = true;
                }
            }
            Ok(Err(e)) => machinery.push(e),
            Err(_) => machinery.push("worker thread panicked".into()),
        }
    }
    if incomplete_worker {
        machinery.push("a worker kept dying; exploration incomplete".into());
    }
    // ---- verdicts
    let mut unlisted = 0u64;
    let mut known_met: BTreeMap<String, (String, u64)> = BTreeMap::new();
    // sort violations: shortest input first so the reported ones are the simplest
    viols.sort_by_key(|v| {
        (
            v["clause"].as_str().unwrap_or("").to_string(),
            v["case"]["s"].as_str().map(|s| s.chars().count()).unwrap_or(0),
            v["case"]["s"].as_str().unwrap_or("").to_string(),
            v["case"]["n"].to_string(),
        )
    });
    let mut per_clause_files: BTreeMap<String, u64> = BTreeMap::new();
    let mut printed: Vec<String> = vec![];
    for v in &viols {
        let clause = v["clause"].as_str().unwrap_or("");
        let kf = v["kf"].as_str();
        let listed = kf.and_then(|k| known.lookup(id, k));
        if let Some(f) = listed {
            let e = known_met
                .entry(kf.unwrap().to_string())
                .or_insert((f["what"].as_str().unwrap_or("").to_string(), 0));
            e.1 += 1;
            continue;
        }
        unlisted += 1;
        let c = per_clause_files.entry(clause.to_string()).or_insert(0);
        *c += 1;
        if *c <= 5 {
            let case = if v["shrunk"].is_object() { &v["shrunk"] } else { &v["case"] };
            let detail_v = if v["shrunk"].is_object() { &v["shrunk_detail"] } else { &v["detail"] };
            let path = write_replay(
                id,
                clause,
                v["scope"].as_str().unwrap_or(""),
                case,
                detail_v.as_str().unwrap_or(""),
                json!({"original_case": v["case"], "kf_candidate": v["kf"]}),
            );
            printed.push(format!("VIOLATION property={} replay={}", id, path));
            println!(
                "  [{}] {} :: input {} :: {}",
                clause,
                v["scope"].as_str().unwrap_or(""),
                case["s"],
                trunc(detail_v.as_str().unwrap_or(""), 600)
            );
        }
    }
    // totals (workers cap how many records they stream; counts are complete)
    let mut total_viol: u64 = 0;
    let mut total_known: u64 = 0;
    for (k, c) in &viol_counts {
        if k == "@machinery" {
            continue;
        }
        let kf = k.split('|').nth(1).unwrap_or("");
        if !kf.is_empty() && known.lookup(id, kf).is_some() {
            total_known += c;
            if let Some(e) = known_met.get_mut(kf) {
                e.1 = e.1.max(*c);
            }
        } else {
            total_viol += c;
        }
    }
    let total_viol = total_viol.max(unlisted);
    for (kf, (what, cnt)) in &known_met {
        println!("KNOWN-FINDING: property={} {} [{}] ({} cases)", id, what, kf, cnt);
    }
    for p in &printed {
        println!("{}", p);
    }
    let scopes_json: Vec<Value> = scope_tot
        .values()
        .map(|(name, about, size, done, skipped)| {
            json!({"scope": name, "about": about, "size": size, "completed": done,
                "exhaustive": done == size && *skipped == 0})
        })
        .collect();
    let all_exhaustive = scope_tot.values().all(|(_, _, size, done, sk)| done == size && *sk == 0) && !incomplete_worker;
    // pick at most 8 samples
    let mut samples_small: Vec<Value> = vec![];
    let step = (samples.len() / 8).max(1);
    for (i, s) in samples.iter().enumerate() {
        if i % step == 0 && samples_small.len() < 8 {
            samples_small.push(s.clone());
        }
    }
    for s in samples_small.iter_mut() {
        // keep the evidence readable: long inputs are shown truncated
        if let Some(c) = s.get_mut("case").and_then(|c| c.as_object_mut()) {
            let long = c.get("s").and_then(|x| x.as_str()).map(|x| x.chars().count() > 400).unwrap_or(false);
            if long {
                let t = trunc(c["s"].as_str().unwrap_or(""), 400);
                c.insert("s".into(), json!(t));
                c.insert("s_hex".into(), json!("(truncated)"));
            }
        }
    }
    if samples_small.is_empty() {
        samples_small.push(json!("no case was explored"));
    }
    let wall = t0.elapsed().as_secs_f64();
    let ev = json!({
        "property_id": id,
        "tier": tier.name(),
        "seed": seed,
        "level": "model_checking",
        "coverage": {
            "states": states.max(1),
            "transitions": conv.max(1),
            "traces_validated_against_impl": cmp,
            "samples": samples_small,
            "evaluations": states,
            "distinct_nontrivial": outcomes.len(),
            "rule": prop.rule(),
            "exhaustive": all_exhaustive,
            "scopes": scopes_json,
            "counters": counters,
            "workers": n,
            "meaning": "states = distinct enumerated cases (inputs / configurations / histories) each explored completely; transitions = executions of a real library entry point; traces_validated_against_impl = reference-model or metamorphic predictions compared with the implementation's output",
        },
        "assumptions": prop.assumptions(),
        "wall_s": wall,
        "violations": total_viol,
        "known_findings_met": known_met.iter().map(|(k,(w,c))| json!({"id":k,"what":w,"cases":c})).collect::<Vec<_>>(),
        "known_cases": total_known,
        "machinery_errors": machinery,
    });
    let evdir = format!("{}/evidence", VERIF_DIR);
    let _ = std::fs::create_dir_all(&evdir);
    let _ = std::fs::write(format!("{}/{}.json", evdir, id), serde_json::to_string_pretty(&ev).unwrap());
    println!(
        "{} {}: {} cases, {} conversions, {} comparisons, {} distinct non-trivial outcomes, exhaustive={}, {:.1}s, violations={}, known={}",
        id,
        tier.name(),
        states,
        conv,
        cmp,
        outcomes.len(),
        all_exhaustive,
        wall,
        total_viol,
        total_known
    );
    for m in &machinery {
        println!("MACHINERY-ERROR: {}", trunc(m, 500));
    }
    if total_viol > 0 {
        if printed.is_empty() {
            println!("VIOLATION property={} replay=(none written)", id);
        }
        1
    } else if !machinery.is_empty() {
        2
    } else if states == 0 || (outcomes.len() < 2 && std::env::var("VERIF_ALLOW_VACUOUS").is_err()) {
        println!("MACHINERY-ERROR: vacuous exploration ({} cases, {} distinct non-trivial outcomes)", states, outcomes.len());
        2
    } else {
        0
    }
}

pub fn trunc(s: &str, n: usize) -> String {
    if s.chars().count() <= n {
        s.to_string()
    } else {
        let t: String = s.chars().take(n).collect();
        format!("{}…", t)
    }
}

pub fn replay(prop: &dyn Prop, v: &Value, path: &str) -> i32 {
    conv::install_quiet_panic_hook();
    let case = Case::from_json(&v["case"]);
    let scope = v["scope"].as_str().unwrap_or("");
    let mut cx = Cx::new(prop.id());
    let r = std::panic::catch_unwind(std::panic::AssertUnwindSafe(|| prop.check(scope, &case, &mut cx)));
    if r.is_err() {
        println!("MACHINERY-ERROR: oracle code panicked: {}", conv::last_panic());
        return 2;
    }
    for m in &cx.machinery {
        println!("MACHINERY-ERROR: {}", m);
    }
    let known = load_known().unwrap_or(Known { findings: vec![] });
    let mut bad = 0;
    for vi in &cx.viols {
        let listed = vi.kf.as_deref().and_then(|k| known.lookup(prop.id(), k)).is_some();
        println!(
            "{} clause={} kf={:?} :: {}",
            if listed { "KNOWN-FINDING:" } else { "violation:" },
            vi.clause,
            vi.kf,
            trunc(&vi.detail, 2000)
        );
        if !listed {
            bad += 1;
        }
    }
    if bad > 0 {
        println!("VIOLATION property={} replay={}", prop.id(), path);
        1
    } else if !cx.machinery.is_empty() {
        2
    } else {
        println!("replay: property {} holds on this case", prop.id());
        0
    }
}
