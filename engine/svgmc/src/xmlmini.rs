//! A strict XML 1.0 (5th edition) well-formedness parser for documents
//! without an internal DTD subset.  It builds a tree and *names* every
//! construct it meets, so that the checks can refuse comments, processing
//! instructions, CDATA sections, doctypes and entity references.
//!
//! It is bound to a conforming parser (expat) by `drivers/expat_xcheck.py`:
//! both sides print the same canonical dump and must agree on every document.

#[derive(Debug, Clone, PartialEq)]
pub enum Child {
    Elem(Element),
    Text(String),
}

#[derive(Debug, Clone, PartialEq)]
pub struct Element {
    pub name: String,
    pub attrs: Vec<(String, String)>,
    pub children: Vec<Child>,
}

#[derive(Debug, Clone, PartialEq, Eq, PartialOrd, Ord)]
pub enum Construct {
    XmlDecl,
    Comment,
    Pi,
    Cdata,
    Doctype,
    /// a predefined entity reference (lt gt amp apos quot)
    PredefRef,
    /// a numeric character reference
    CharRef,
}

#[derive(Debug, Clone)]
pub struct Document {
    pub root: Element,
    pub constructs: Vec<Construct>,
}

#[derive(Debug, Clone, PartialEq)]
pub struct XmlError {
    pub pos: usize,
    pub msg: String,
}

pub fn is_xml_char(c: char) -> bool {
    let u = c as u32;
    u == 0x9
        || u == 0xA
        || u == 0xD
        || (0x20..=0xD7FF).contains(&u)
        || (0xE000..=0xFFFD).contains(&u)
        || (0x10000..=0x10FFFF).contains(&u)
}

fn is_name_start(c: char) -> bool {
    let u = c as u32;
    c == ':'
        || c == '_'
        || c.is_ascii_alphabetic()
        || (0xC0..=0xD6).contains(&u)
        || (0xD8..=0xF6).contains(&u)
        || (0xF8..=0x2FF).contains(&u)
        || (0x370..=0x37D).contains(&u)
        || (0x37F..=0x1FFF).contains(&u)
        || (0x200C..=0x200D).contains(&u)
        || (0x2070..=0x218F).contains(&u)
        || (0x2C00..=0x2FEF).contains(&u)
        || (0x3001..=0xD7FF).contains(&u)
        || (0xF900..=0xFDCF).contains(&u)
        || (0xFDF0..=0xFFFD).contains(&u)
        || (0x10000..=0xEFFFF).contains(&u)
}

fn is_name_char(c: char) -> bool {
    let u = c as u32;
    is_name_start(c)
        || c == '-'
        || c == '.'
        || c.is_ascii_digit()
        || u == 0xB7
        || (0x300..=0x36F).contains(&u)
        || (0x203F..=0x2040).contains(&u)
}

fn is_space(c: char) -> bool {
    c == ' ' || c == '\t' || c == '\n' || c == '\r'
}

struct P<'a> {
    s: &'a [char],
    i: usize,
    constructs: Vec<Construct>,
}

type R<T> = Result<T, XmlError>;

impl<'a> P<'a> {
    fn err<T>(&self, msg: &str) -> R<T> {
        Err(XmlError {
            pos: self.i,
            msg: msg.to_string(),
        })
    }
    fn peek(&self) -> Option<char> {
        self.s.get(self.i).copied()
    }
    fn starts(&self, t: &str) -> bool {
        let mut j = self.i;
        for c in t.chars() {
            if self.s.get(j) != Some(&c) {
                return false;
            }
            j += 1;
        }
        true
    }
    fn eat(&mut self, t: &str) -> bool {
        if self.starts(t) {
            self.i += t.chars().count();
            true
        } else {
            false
        }
    }
    fn skip_space(&mut self) -> usize {
        let st = self.i;
        while let Some(c) = self.peek() {
            if is_space(c) {
                self.i += 1
            } else {
                break;
            }
        }
        self.i - st
    }
    fn name(&mut self) -> R<String> {
        let st = self.i;
        match self.peek() {
            Some(c) if is_name_start(c) => self.i += 1,
            _ => return self.err("name expected"),
        }
        while let Some(c) = self.peek() {
            if is_name_char(c) {
                self.i += 1
            } else {
                break;
            }
        }
        Ok(self.s[st..self.i].iter().collect())
    }

    /// after '&' has been consumed
    fn reference(&mut self) -> R<char> {
        if self.eat("#x") {
            let st = self.i;
            while let Some(c) = self.peek() {
                if c.is_ascii_hexdigit() {
                    self.i += 1
                } else {
                    break;
                }
            }
            if st == self.i || !self.eat(";") {
                return self.err("bad hexadecimal character reference");
            }
            let txt: String = self.s[st..self.i - 1].iter().collect();
            let txt = txt.trim_start_matches('0');
            if txt.len() > 6 {
                return self.err("character reference out of range");
            }
            let v = if txt.is_empty() {
                0
            } else {
                u32::from_str_radix(txt, 16).unwrap()
            };
            match char::from_u32(v) {
                Some(c) if is_xml_char(c) => {
                    self.constructs.push(Construct::CharRef);
                    Ok(c)
                }
                _ => self.err("character reference to an illegal character"),
            }
        } else if self.eat("#") {
            let st = self.i;
            while let Some(c) = self.peek() {
                if c.is_ascii_digit() {
                    self.i += 1
                } else {
                    break;
                }
            }
            if st == self.i || !self.eat(";") {
                return self.err("bad decimal character reference");
            }
            let txt: String = self.s[st..self.i - 1].iter().collect();
            let txt = txt.trim_start_matches('0');
            if txt.len() > 7 {
                return self.err("character reference out of range");
            }
            let v = if txt.is_empty() {
                0
            } else {
                txt.parse::<u32>().unwrap()
            };
            match char::from_u32(v) {
                Some(c) if is_xml_char(c) => {
                    self.constructs.push(Construct::CharRef);
                    Ok(c)
                }
                _ => self.err("character reference to an illegal character"),
            }
        } else {
            let n = self.name()?;
            if !self.eat(";") {
                return self.err("';' expected after entity name");
            }
            let c = match n.as_str() {
                "lt" => '<',
                "gt" => '>',
                "amp" => '&',
                "apos" => '\'',
                "quot" => '"',
                _ => return self.err("reference to an undeclared entity"),
            };
            self.constructs.push(Construct::PredefRef);
            Ok(c)
        }
    }

    fn attr_value(&mut self) -> R<String> {
        let q = match self.peek() {
            Some(c) if c == '"' || c == '\'' => c,
            _ => return self.err("quoted attribute value expected"),
        };
        self.i += 1;
        let mut out = String::new();
        loop {
            match self.peek() {
                None => return self.err("unterminated attribute value"),
                Some(c) if c == q => {
                    self.i += 1;
                    return Ok(out);
                }
                Some('<') => return self.err("'<' in attribute value"),
                Some('&') => {
                    self.i += 1;
                    let c = self.reference()?;
                    out.push(c);
                }
                Some(c) => {
                    if !is_xml_char(c) {
                        return self.err("illegal character in attribute value");
                    }
                    self.i += 1;
                    // attribute value normalisation (after line end
                    // normalisation CRLF is one LF, hence one space)
                    if c == '\r' {
                        if self.peek() == Some('\n') {
                            self.i += 1;
                        }
                        out.push(' ');
                    } else if c == '\n' || c == '\t' {
                        out.push(' ');
                    } else {
                        out.push(c);
                    }
                }
            }
        }
    }

    fn comment(&mut self) -> R<()> {
        // after "<!--"
        loop {
            if self.starts("--") {
                if self.starts("-->") {
                    self.i += 3;
                    self.constructs.push(Construct::Comment);
                    return Ok(());
                }
                return self.err("'--' inside a comment");
            }
            match self.peek() {
                None => return self.err("unterminated comment"),
                Some(c) if !is_xml_char(c) => return self.err("illegal character in comment"),
                Some(_) => self.i += 1,
            }
        }
    }

    fn pi(&mut self) -> R<()> {
        // after "<?"
        let n = self.name()?;
        if n.eq_ignore_ascii_case("xml") {
            return self.err("reserved processing instruction target");
        }
        if n.contains(':') {
            // expat is namespace-agnostic here; colons are legal in XML 1.0 names
        }
        if self.eat("?>") {
            self.constructs.push(Construct::Pi);
            return Ok(());
        }
        if self.skip_space() == 0 {
            return self.err("space expected after processing instruction target");
        }
        loop {
            if self.eat("?>") {
                self.constructs.push(Construct::Pi);
                return Ok(());
            }
            match self.peek() {
                None => return self.err("unterminated processing instruction"),
                Some(c) if !is_xml_char(c) => return self.err("illegal character in processing instruction"),
                Some(_) => self.i += 1,
            }
        }
    }

    fn element(&mut self, depth: usize) -> R<Element> {
        // at '<' followed by a name start
        if depth > 2000 {
            return self.err("nesting too deep");
        }
        self.i += 1;
        let name = self.name()?;
        let mut attrs: Vec<(String, String)> = vec![];
        loop {
            let sp = self.skip_space();
            if self.eat("/>") {
                return Ok(Element {
                    name,
                    attrs,
                    children: vec![],
                });
            }
            if self.eat(">") {
                break;
            }
            if sp == 0 {
                return self.err("space expected between attributes");
            }
            let an = self.name()?;
            self.skip_space();
            if !self.eat("=") {
                return self.err("'=' expected after attribute name");
            }
            self.skip_space();
            let av = self.attr_value()?;
            if attrs.iter().any(|(n, _)| *n == an) {
                return self.err("duplicate attribute");
            }
            attrs.push((an, av));
        }
        // content
        let mut children: Vec<Child> = vec![];
        let mut text = String::new();
        macro_rules! flush {
            () => {
                if !text.is_empty() {
                    children.push(Child::Text(std::mem::take(&mut text)));
                }
            };
        }
        loop {
            if self.starts("</") {
                self.i += 2;
                let n = self.name()?;
                if n != name {
                    return self.err("mismatched end tag");
                }
                self.skip_space();
                if !self.eat(">") {
                    return self.err("'>' expected in end tag");
                }
                flush!();
                return Ok(Element {
                    name,
                    attrs,
                    children,
                });
            }
            if self.starts("<!--") {
                self.i += 4;
                self.comment()?;
                continue;
            }
            if self.starts("<![CDATA[") {
                self.i += 9;
                loop {
                    if self.eat("]]>") {
                        break;
                    }
                    match self.peek() {
                        None => return self.err("unterminated CDATA section"),
                        Some(c) if !is_xml_char(c) => return self.err("illegal character in CDATA"),
                        Some('\r') => {
                            self.i += 1;
                            if self.peek() == Some('\n') {
                                self.i += 1;
                            }
                            text.push('\n');
                        }
                        Some(c) => {
                            text.push(c);
                            self.i += 1
                        }
                    }
                }
                self.constructs.push(Construct::Cdata);
                continue;
            }
            if self.starts("<?") {
                self.i += 2;
                self.pi()?;
                continue;
            }
            match self.peek() {
                None => return self.err("unexpected end of document inside an element"),
                Some('<') => {
                    match self.s.get(self.i + 1) {
                        Some(c) if is_name_start(*c) => {}
                        _ => return self.err("'<' not starting a tag"),
                    }
                    flush!();
                    let e = self.element(depth + 1)?;
                    children.push(Child::Elem(e));
                }
                Some('&') => {
                    self.i += 1;
                    let c = self.reference()?;
                    text.push(c);
                }
                Some(']') if self.starts("]]>") => {
                    return self.err("']]>' in character data");
                }
                Some(c) => {
                    if !is_xml_char(c) {
                        return self.err("illegal character in character data");
                    }
                    self.i += 1;
                    if c == '\r' {
                        if self.peek() == Some('\n') {
                            self.i += 1;
                        }
                        text.push('\n');
                    } else {
                        text.push(c);
                    }
                }
            }
        }
    }

    fn misc(&mut self) -> R<()> {
        loop {
            self.skip_space();
            if self.starts("<!--") {
                self.i += 4;
                self.comment()?;
            } else if self.starts("<?") {
                self.i += 2;
                self.pi()?;
            } else {
                return Ok(());
            }
        }
    }

    fn xml_decl(&mut self) -> R<()> {
        // a minimal, strict XMLDecl: <?xml version="1.x" (encoding="..")? (standalone="yes|no")? ?>
        // at "<?xml" followed by space
        self.i += 5;
        if self.skip_space() == 0 {
            return self.err("space expected in XML declaration");
        }
        if !self.eat("version") {
            return self.err("version expected");
        }
        self.skip_space();
        if !self.eat("=") {
            return self.err("'=' expected");
        }
        self.skip_space();
        let v = self.attr_value()?;
        // VersionNum as in XML 1.0 (4th edition) and as expat reads it
        if v.is_empty() || !v.bytes().all(|b| b.is_ascii_alphanumeric() || matches!(b, b'_' | b'.' | b':' | b'-')) {
            return self.err("bad version");
        }
        let mut sp = self.skip_space();
        if sp > 0 && self.eat("encoding") {
            self.skip_space();
            if !self.eat("=") {
                return self.err("'=' expected");
            }
            self.skip_space();
            let e = self.attr_value()?;
            if !e.eq_ignore_ascii_case("utf-8") {
                return self.err("unsupported encoding");
            }
            sp = self.skip_space();
        }
        if sp > 0 && self.eat("standalone") {
            self.skip_space();
            if !self.eat("=") {
                return self.err("'=' expected");
            }
            self.skip_space();
            let e = self.attr_value()?;
            if e != "yes" && e != "no" {
                return self.err("bad standalone value");
            }
            self.skip_space();
        }
        if !self.eat("?>") {
            return self.err("'?>' expected");
        }
        self.constructs.push(Construct::XmlDecl);
        Ok(())
    }

    fn doctype(&mut self) -> R<()> {
        // only the form <!DOCTYPE name> (no external id, no internal subset)
        self.i += 9;
        if self.skip_space() == 0 {
            return self.err("space expected after DOCTYPE");
        }
        self.name()?;
        self.skip_space();
        if !self.eat(">") {
            return self.err("unsupported doctype");
        }
        self.constructs.push(Construct::Doctype);
        Ok(())
    }
}

pub fn parse(input: &str) -> Result<Document, XmlError> {
    let chars: Vec<char> = input.chars().collect();
    let mut p = P {
        s: &chars,
        i: 0,
        constructs: vec![],
    };
    if p.peek() == Some('\u{FEFF}') {
        p.i += 1;
    }
    if p.starts("<?xml") && p.s.get(p.i + 5).map(|c| is_space(*c)).unwrap_or(false) {
        p.xml_decl()?;
    }
    p.misc()?;
    if p.starts("<!DOCTYPE") {
        p.doctype()?;
        p.misc()?;
    }
    match (p.peek(), p.s.get(p.i + 1)) {
        (Some('<'), Some(c)) if is_name_start(*c) => {}
        _ => return p.err("root element expected"),
    }
    let root = p.element(0)?;
    p.misc()?;
    if p.i != chars.len() {
        return p.err("content after the root element");
    }
    Ok(Document {
        root,
        constructs: p.constructs,
    })
}

fn hex(s: &str, out: &mut String) {
    for b in s.bytes() {
        out.push_str(&format!("{:02x}", b));
    }
}

/// canonical dump used for the differential against expat
pub fn dump(e: &Element, out: &mut String) {
    out.push('(');
    hex(&e.name, out);
    let mut attrs = e.attrs.clone();
    attrs.sort();
    for (n, v) in attrs {
        out.push(' ');
        hex(&n, out);
        out.push('=');
        hex(&v, out);
    }
    for c in &e.children {
        match c {
            Child::Elem(e) => dump(e, out),
            Child::Text(t) => {
                out.push('T');
                hex(t, out);
                out.push(';');
            }
        }
    }
    out.push(')');
}

impl Element {
    pub fn attr(&self, n: &str) -> Option<&str> {
        self.attrs.iter().find(|(k, _)| k == n).map(|(_, v)| v.as_str())
    }
    pub fn text(&self) -> String {
        let mut s = String::new();
        for c in &self.children {
            if let Child::Text(t) = c {
                s.push_str(t)
            }
        }
        s
    }
    pub fn elems(&self) -> impl Iterator<Item = &Element> {
        self.children.iter().filter_map(|c| match c {
            Child::Elem(e) => Some(e),
            _ => None,
        })
    }
}

#[cfg(test)]
mod tests {
    use super::*;
    #[test]
    fn basics() {
        assert!(parse("<a/>").is_ok());
        assert!(parse("<a b='1' c=\"2\">x&lt;y<b/> </a>\n").is_ok());
        assert!(parse("<a>]]></a>").is_err());
        assert!(parse("<a>&x;</a>").is_err());
        assert!(parse("<a>\u{1}</a>").is_err());
        assert!(parse("<a b='<'/>").is_err());
        assert!(parse("<a b='1' b='2'/>").is_err());
        assert!(parse("<a></b>").is_err());
        assert!(parse("<a/><b/>").is_err());
        assert!(parse("<a>&#0;</a>").is_err());
        assert!(parse("<a>&#x41;</a>").unwrap().root.text() == "A");
        assert!(parse("<a><!-- x -- y --></a>").is_err());
        assert!(parse("<a><![CDATA[<>]]></a>").unwrap().root.text() == "<>");
    }
}
