//! Two threads convert concurrently, starting from the uninitialised tables.
use std::thread;

fn main() {
    let inputs = ["()", "+-+\n| |\n+-+"];
    let hs: Vec<_> = inputs
        .iter()
        .map(|i| {
            let i = i.to_string();
            thread::spawn(move || svgbob::to_svg_with_settings(&i, &svgbob::Settings::for_debug()))
        })
        .collect();
    let outs: Vec<String> = hs.into_iter().map(|h| h.join().expect("no panic")).collect();
    // sequentially, afterwards
    for (i, o) in inputs.iter().zip(&outs) {
        assert_eq!(&svgbob::to_svg_with_settings(i, &svgbob::Settings::for_debug()), o);
    }
    println!("miri_race ok");
}
