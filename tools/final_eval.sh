#!/bin/bash
# final pass: every seeded change (sub-agent seeds and reverse-fix patches) against the final quick checks
cd /verif
tools/eval_seeds_after.sh final_quick quick $(ls -d seeded/C??-? seeded/orig-*)
python3 tools/seed_report.py
