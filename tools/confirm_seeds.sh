#!/bin/bash
# Confirms every seeded change in a scratch worktree: (1) the patch applies, (2) the repository's own
# tests still pass with it, (3) the demonstration fails with it, (4) the demonstration passes without it.
# usage: tools/confirm_seeds.sh <scratch worktree> <seed dir>...      writes <seed dir>/confirm.json
WT=$1; shift
LOG=/tmp/confirm_demo_$(basename $WT).log
export CARGO_NET_OFFLINE=true
for d in "$@"; do
  cd $WT && git checkout -q -- . && git clean -fdq -- crates
  res="{"
  if ! git apply --check $d/patch.diff 2>/dev/null; then
    echo "{\"applies\": false}" > $d/confirm.json; echo "$d: patch does not apply"; continue
  fi
  git apply $d/patch.diff
  tests=$(cargo test --workspace --offline 2>&1 | grep -E "^test result" | awk '{p+=$4; f+=$6} END {print p" "f}')
  passed=${tests% *}; failed=${tests#* }
  demo_with="n/a"; demo_without="n/a"
  if [ -f $d/demo.rs ]; then
    cp $d/demo.rs crates/svgbob/tests/zz_seed_demo.rs
    if cargo test -p svgbob --offline --test zz_seed_demo >$LOG 2>&1; then demo_with=pass; else demo_with=fail; fi
    git checkout -q -- . ; cp $d/demo.rs crates/svgbob/tests/zz_seed_demo.rs
    if cargo test -p svgbob --offline --test zz_seed_demo >$LOG 2>&1; then demo_without=pass; else demo_without=fail; fi
    rm -f crates/svgbob/tests/zz_seed_demo.rs
  elif [ -f $d/demo.sh ]; then
    if bash $d/demo.sh $WT >$LOG 2>&1; then demo_with=pass; else demo_with=fail; fi
    git checkout -q -- .
    if bash $d/demo.sh $WT >$LOG 2>&1; then demo_without=pass; else demo_without=fail; fi
  elif [ -f $d/demo.py ]; then
    if python3 $d/demo.py $WT >$LOG 2>&1; then demo_with=pass; else demo_with=fail; fi
    git checkout -q -- .
    if python3 $d/demo.py $WT >$LOG 2>&1; then demo_without=pass; else demo_without=fail; fi
  fi
  git checkout -q -- . ; git clean -fdq -- crates
  echo "{\"applies\": true, \"suite_passed\": $passed, \"suite_failed\": $failed, \"demo_with_patch\": \"$demo_with\", \"demo_without_patch\": \"$demo_without\"}" > $d/confirm.json
  echo "$d: suite $passed passed $failed failed; demo with=$demo_with without=$demo_without"
done
