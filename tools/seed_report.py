#!/usr/bin/env python3
"""Generates seeded/RESULTS.md from the meta.json of every seeded change."""
import json, glob, os
rows = []
for d in sorted(glob.glob('/verif/seeded/*/')):
    mp = d + 'meta.json'
    if not os.path.exists(mp):
        continue
    m = json.load(open(mp))
    rows.append(m)
labels = []
for m in rows:
    for k in m.get("checks", {}):
        if k not in labels:
            labels.append(k)
out = ["# Seeded changes and which checks catch them", "",
       "Each row is a change to ivanceras/svgbob that breaks the named property while the repository's 110 tests still pass.",
       "`origin` says who wrote it: an independent sub-agent that saw only the property record and its own scratch worktree,",
       "or `reverse-fix` = the reverse patch of a `fix:` commit (the original defect). Every change was confirmed in a scratch",
       "worktree (suite green with it, demonstration failing with it and passing without it) before being kept.",
       "A cell shows the exit status of `tools/with_patch.sh seeded/<id>/patch.diff ./check <property> <tier>`: 1 = caught (VIOLATION), 0 = missed.",
       "`baseline_quick` is the check as it stood before the seed was looked at; later columns are after strengthening.", ""]
out.append("| id | property | needs to manifest | " + " | ".join(labels) + " |")
out.append("|---|---|---|" + "---|" * len(labels))
tot = {l: [0, 0] for l in labels}
for m in rows:
    cells = []
    for l in labels:
        c = m.get("checks", {}).get(l)
        if c is None:
            cells.append("")
        else:
            cells.append("**caught**" if c.get("detected") else "missed (exit %s)" % c.get("exit"))
            tot[l][1] += 1
            tot[l][0] += 1 if c.get("detected") else 0
    out.append("| %s | %s | %s | %s |" % (m["id"], m["property"], m.get("needs_to_manifest", "").replace("|", "\\|"), " | ".join(cells)))
out.append("")
for l in labels:
    out.append("* %s: %d of %d caught" % (l, tot[l][0], tot[l][1]))
out.append("")
out.append("Notes per seed (confirmation details, first violation reported) are in each `seeded/<id>/meta.json`.")
open('/verif/seeded/RESULTS.md', 'w').write("\n".join(out) + "\n")
print("\n".join(out[-6:]))
