#!/bin/bash
# Runs a property's check against each seeded change (applied to /repo, undone straight afterwards).
# usage: tools/eval_seeds.sh <tier> <seed dir>...   (the property id is taken from the path component Cxx or orig-Cxx-…)
tier=$1; shift
cd /verif
for d in "$@"; do
  prop=$(echo "$d" | grep -oE "C[0-9]{2}" | head -1)
  if ! git -C /repo diff --quiet; then echo "repo not clean"; exit 3; fi
  if ! git -C /repo apply --check $d/patch.diff 2>/dev/null; then echo "$d: patch does not apply"; echo '{"applies": false}' > $d/eval_$tier.json; continue; fi
  git -C /repo apply $d/patch.diff
  t0=$(date +%s)
  ./check $prop $tier > /tmp/eval_seed.log 2>&1; rc=$?
  t1=$(date +%s)
  git -C /repo checkout -q -- . ; git -C /repo clean -fdq -- crates
  first=$(grep -m1 -E "^\s+\[" /tmp/eval_seed.log | cut -c1-300 | python3 -c 'import json,sys; print(json.dumps(sys.stdin.read().strip()))')
  summary=$(grep -E "^C[0-9]{2} (quick|thorough)" /tmp/eval_seed.log | tail -1 | python3 -c 'import json,sys; print(json.dumps(sys.stdin.read().strip()))')
  echo "{\"property\": \"$prop\", \"tier\": \"$tier\", \"exit\": $rc, \"seconds\": $((t1-t0)), \"first_violation\": $first, \"summary\": $summary}" > $d/eval_$tier.json
  echo "$d: $prop $tier exit=$rc ($((t1-t0))s)"
done
