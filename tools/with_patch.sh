#!/bin/bash
# usage: tools/with_patch.sh <patch.diff> <command...>
# applies the patch to /repo's working tree, runs the command, and always undoes the patch
patch=$(readlink -f "$1"); shift
if ! git -C /repo diff --quiet; then echo "refusing: /repo working tree is not clean"; exit 3; fi
git -C /repo apply "$patch" || { echo "patch does not apply"; exit 3; }
"$@"; rc=$?
git -C /repo checkout -- . ; git -C /repo clean -fdq -- crates >/dev/null 2>&1
exit $rc
