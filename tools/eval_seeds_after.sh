#!/bin/bash
# like eval_seeds.sh but records the result under checks.<label> of the seed's meta.json
label=$1; tier=$2; shift 2
cd /verif
for d0 in "$@"; do
  d=$(readlink -f "$d0")
  prop=$(echo "$d" | grep -oE "C[0-9]{2}" | head -1)
  if ! git -C /repo diff --quiet; then echo "repo not clean"; exit 3; fi
  git -C /repo apply $d/patch.diff || { echo "$d does not apply"; continue; }
  t0=$(date +%s)
  ./check $prop $tier > /tmp/eval_seed.log 2>&1; rc=$?
  t1=$(date +%s)
  git -C /repo checkout -q -- . ; git -C /repo clean -fdq -- crates
  python3 - "$d" "$label" "$prop" "$tier" "$rc" "$((t1-t0))" <<'PY'
import json,sys,re
d,label,prop,tier,rc,secs=sys.argv[1:7]
log=open('/tmp/eval_seed.log').read()
first=next((l.strip()[:400] for l in log.splitlines() if re.match(r"^\s+\[",l)),"")
summ=next((l for l in reversed(log.splitlines()) if re.match(r"^C\d\d (quick|thorough)",l)),"")
m=json.load(open(d+'/meta.json'))
m.setdefault("checks",{})[label]={"cmd":f"tools/with_patch.sh seeded/{m['id']}/patch.diff ./check {prop} {tier}","exit":int(rc),"detected":int(rc)==1,"seconds":int(secs),"first_violation":first,"summary":summ}
json.dump(m,open(d+'/meta.json','w'),indent=1,ensure_ascii=False)
PY
  echo "$d: $prop $tier exit=$rc ($((t1-t0))s)"
done
