#!/usr/bin/env python3
"""Supplementary cross-check for C07 (thorough tier only, never a pass on its own): runs
engine/miri_race (two free-running threads racing on the first, table-initialising use of the
real once_cell tables, hooks off) under Miri.  A reported data race / undefined behaviour is a
violation; an infrastructure failure is only noted in the evidence."""
import json, os, subprocess, sys, time
VERIF = "/verif"
t0 = time.time()
env = dict(os.environ, MIRIFLAGS="-Zmiri-disable-isolation -Zmiri-ignore-leaks", CARGO_NET_OFFLINE="true")
try:
    r = subprocess.run(["cargo", "+nightly", "miri", "run", "--offline"], cwd=VERIF + "/engine/miri_race", env=env,
                       capture_output=True, text=True, timeout=int(os.environ.get("VERIF_MIRI_TIMEOUT_S", "3600")))
    out = r.stdout + r.stderr
    rc = r.returncode
except subprocess.TimeoutExpired as e:
    out, rc = "timeout", -1
except OSError as e:
    out, rc = repr(e), -2
bad = ("Undefined Behavior" in out) or ("Data race" in out) or ("data race" in out)
ok = rc == 0 and "miri_race ok" in out
status = "clean" if ok else ("violation" if bad else "not-run")
log = VERIF + "/target/miri_race.log"
os.makedirs(VERIF + "/target", exist_ok=True)
open(log, "w").write(out)
evp = VERIF + "/evidence/C07.json"
try:
    ev = json.load(open(evp))
    ev["coverage"]["miri_supplementary"] = {"status": status, "wall_s": round(time.time() - t0, 1),
        "what": "two threads race on first use of the real once_cell tables under Miri's data race detector (supplementary, not deciding)"}
    if bad:
        ev["violations"] = ev.get("violations", 0) + 1
    json.dump(ev, open(evp, "w"), indent=1)
except Exception:
    pass
print("C07 miri supplementary: %s (%.0fs)" % (status, time.time() - t0))
if bad:
    os.makedirs(VERIF + "/replays/C07", exist_ok=True)
    rp = VERIF + "/replays/C07/miri-race.json"
    json.dump({"property": "C07", "clause": "data-race-or-UB-under-miri", "log": log, "detail": out[-3000:]}, open(rp, "w"), indent=1)
    print("VIOLATION property=C07 replay=%s" % rp)
    sys.exit(1)
sys.exit(0)
