#!/usr/bin/env python3
"""Binds the in-house XML parser (engine/svgmc/src/xmlmini.rs) to a conforming
parser (expat, via pyexpat) and lets expat judge every distinct output that the
C02 / C08 runs produced.

  expat_xcheck.py <C02|C08> <quick|thorough>

1. every distinct output recorded by the engine run (target/run/<P>/outputs-*.txt:
   "<xmlmini verdict> <crc32 of xmlmini's canonical dump> <hex document>") is parsed
   with expat; verdict and canonical dump must agree.
2. (C02 only) exhaustive differential over the character domain: for every Unicode
   scalar c of the tier's set the documents <a>c</a> and <a b="c"/>, plus a corpus of
   structurally malformed documents, are judged by both parsers (`svgmc xmldump`).

A document that xmlmini accepts and expat rejects is a violation of the property
(the output is not accepted by a conforming parser). Any other disagreement means
the in-house parser is wrong: machinery error (exit 2).
"""
import json, os, sys, zlib, glob, subprocess, time
from multiprocessing import Pool
from xml.parsers import expat

VERIF = "/verif"
SVGMC = VERIF + "/target/release/svgmc"


def expat_dump(doc: bytes):
    """returns (ok, canonical dump)"""
    out = []
    buf = []

    def flush():
        if buf:
            t = "".join(buf)
            buf.clear()
            if t:
                out.append("T" + t.encode("utf-8", "surrogatepass").hex() + ";")

    def start(name, attrs):
        flush()
        out.append("(" + name.encode().hex())
        for k in sorted(attrs):
            out.append(" " + k.encode().hex() + "=" + attrs[k].encode("utf-8", "surrogatepass").hex())

    def end(name):
        flush()
        out.append(")")

    def chars(data):
        buf.append(data)

    p = expat.ParserCreate()
    p.buffer_text = True
    p.StartElementHandler = start
    p.EndElementHandler = end
    p.CharacterDataHandler = chars
    try:
        p.Parse(doc, True)
    except expat.ExpatError:
        return False, ""
    return True, "".join(out)


def check_file(path):
    n = 0
    bad = []
    with open(path) as f:
        for line in f:
            parts = line.split()
            if len(parts) != 3:
                continue
            ok_m, crc_m, hx = parts[0] == "1", int(parts[1]), parts[2]
            doc = bytes.fromhex(hx)
            ok_e, dump = expat_dump(doc)
            n += 1
            if ok_e != ok_m:
                bad.append(("verdict", ok_m, ok_e, hx, "output"))
            elif ok_e and (zlib.crc32(dump.encode()) & 0xFFFFFFFF) != crc_m:
                bad.append(("dump", ok_m, ok_e, hx, "output"))
            if len(bad) > 50:
                break
    return n, bad


def scalars(tier):
    if tier == "thorough":
        return [c for c in range(0x110000) if not (0xD800 <= c <= 0xDFFF)]
    s = set(range(0x3000))
    b = 0x3000
    while b <= 0x10FFFF:
        s.add(b); s.add(b + 0xFF); b += 0x100
    for p in (0xD7FF, 0xE000, 0xFDD0, 0xFDEF, 0xFEFF, 0xFFFD, 0xFFFE, 0xFFFF, 0x10000, 0x1FFFE, 0x1FFFF, 0x10FFFE, 0x10FFFF):
        for d in (-1, 0, 1):
            if 0 <= p + d <= 0x10FFFF:
                s.add(p + d)
    return sorted(c for c in s if not (0xD800 <= c <= 0xDFFF))


MALFORMED = [
    "", " ", "<", "<a", "<a>", "</a>", "<a></b>", "<a/><b/>", "<a/>x", "x<a/>", "<a/> ", "<a/>\n<!--c-->", "<!--c--><a/>", "<?p x?><a/>",
    "<a b/>", "<a b=1/>", "<a b='1' b='2'/>", "<a b='<'/>", "<a b='&'/>", "<a b='&amp;'/>", "<a b='&#60;'/>", "<a b='&x;'/>", "<a b=\"1\"c=\"2\"/>",
    "<a>&</a>", "<a>&amp</a>", "<a>&amp;</a>", "<a>&#;</a>", "<a>&#x;</a>", "<a>&#0;</a>", "<a>&#1;</a>", "<a>&#9;</a>", "<a>&#xD800;</a>", "<a>&#xFFFE;</a>",
    "<a>&#x10FFFF;</a>", "<a>&#x110000;</a>", "<a>&#65;</a>", "<a>&#x41;</a>", "<a>&#X41;</a>", "<a>&lt;&gt;&apos;&quot;</a>", "<a>&nbsp;</a>",
    "<a>]]></a>", "<a>]]</a>", "<a>]></a>", "<a>>]]</a>", "<a><![CDATA[x]]></a>", "<a><![CDATA[]]></a>", "<a><![CDATA[]]]]></a>", "<a><![CDATA[x]]>]]></a>", "<a><![CDATA[x</a>",
    "<a><!--x--></a>", "<a><!--x--y--></a>", "<a><!---></a>", "<a><!----></a>", "<a><!--x---></a>", "<a><!-x--></a>",
    "<a><?p?></a>", "<a><?p x?></a>", "<a><?xml x?></a>", "<a><?XML x?></a>", "<a><? p?></a>", "<a><?p</a>",
    "<a><b></a></b>", "<a><b/></a>", "<a><b></b></a>", "<A></a>", "<a ></a >", "< a/>", "<a/ >", "<a b = '1' />", "<a\tb\n=\r'1'/>",
    "<1a/>", "<a1/>", "<-a/>", "<a-/>", "<a.b/>", "<a:b/>", "<:a/>", "<_a/>", "<a b:c='1'/>",
    "<a b='x\ty'/>", "<a b='x\ny'/>", "<a b='x\r\ny'/>", "<a b='x\ry'/>", "<a>x\r\ny\rz</a>", "<a>\t</a>",
    "<a b=\"'\"/>", "<a b='\"'/>", "<a b=''/>", "<a b='>'/>", "<a>></a>", "<a>\"'</a>",
    "<?xml version='1.0'?><a/>", "<?xml version='1.0' encoding='UTF-8'?><a/>", "<?xml version='1.0' standalone='yes'?><a/>", " <?xml version='1.0'?><a/>",
    "<?xml?><a/>", "<?xml version='2.0'?><a/>", "<!DOCTYPE a><a/>", "<!DOCTYPE a><b/>", "<a/><!DOCTYPE a>", "<!DOCTYPE><a/>",
    "<a xmlns='u'/>", "<a xmlns:b='u'><b:c/></a>", "<svg xmlns=\"http://www.w3.org/2000/svg\" width=\"16\" height=\"32\" class=\"svgbob\">\n  <text x=\"2\" y=\"12\" >a&lt;b</text>\n</svg>",
    "<a>\x00</a>", "<a>\x01</a>", "<a>\x08</a>", "<a>\x0b</a>", "<a>\x0c</a>", "<a>\x1f</a>", "<a>\x7f</a>", "<a>\x85</a>", "<a>￾</a>", "<a>￿</a>", "<a>�</a>",
    "<a b='\x01'/>", "<a b='￾'/>", "<a><!--\x01--></a>", "<a><?p \x01?></a>", "<a><![CDATA[\x01]]></a>", "<a><![CDATA[￾]]></a>",
]


def xmlmini_batch(docs):
    """docs: list of bytes -> list of (ok, crc or dump)"""
    p = subprocess.Popen([SVGMC, "xmldump"], stdin=subprocess.PIPE, stdout=subprocess.PIPE)
    data = "".join(d.hex() + "\n" for d in docs).encode()
    out, _ = p.communicate(data)
    res = []
    for line in out.decode().splitlines():
        if line.startswith("@@X "):
            parts = line.split(" ", 2)
            res.append((parts[1] == "1", parts[2] if len(parts) > 2 else ""))
    return res


def diff_chunk(cps):
    docs = []
    for c in cps:
        ch = chr(c).encode("utf-8")
        docs.append(b"<a>" + ch + b"</a>")
        docs.append(b'<a b="' + ch + b'"/>')
        docs.append(b"<a><![CDATA[" + ch + b"]]><!--" + ch + b"--></a>")
    mini = xmlmini_batch(docs)
    bad = []
    if len(mini) != len(docs):
        return len(docs), [("protocol", False, False, "", "diff")]
    for d, (ok_m, dump_m) in zip(docs, mini):
        ok_e, dump_e = expat_dump(d)
        if ok_e != ok_m:
            bad.append(("verdict", ok_m, ok_e, d.hex(), "diff"))
        elif ok_e and dump_e != dump_m:
            bad.append(("dump", ok_m, ok_e, d.hex(), "diff"))
    return len(docs), bad


def main():
    prop, tier = sys.argv[1], sys.argv[2]
    t0 = time.time()
    files = sorted(glob.glob(f"{VERIF}/target/run/{prop}/outputs-*.txt"))
    total = 0
    bad = []
    with Pool(min(16, os.cpu_count() or 4)) as pool:
        for n, b in pool.imap_unordered(check_file, files):
            total += n
            bad.extend(b)
        ndiff = 0
        ncorpus = 0
        if prop == "C02":
            cps = scalars(tier)
            chunks = [cps[i:i + 4000] for i in range(0, len(cps), 4000)]
            for n, b in pool.imap_unordered(diff_chunk, chunks):
                ndiff += n
                bad.extend(b)
            docs = [m.encode("utf-8", "surrogatepass") for m in MALFORMED]
            mini = xmlmini_batch(docs)
            for d, (ok_m, dump_m) in zip(docs, mini):
                ok_e, dump_e = expat_dump(d)
                ncorpus += 1
                if ok_e != ok_m:
                    bad.append(("verdict", ok_m, ok_e, d.hex(), "corpus"))
                elif ok_e and dump_e != dump_m:
                    bad.append(("dump", ok_m, ok_e, d.hex(), "corpus"))
    violations = [b for b in bad if b[4] == "output" and b[0] == "verdict" and b[1] and not b[2]]
    machinery = [b for b in bad if b not in violations]
    evp = f"{VERIF}/evidence/{prop}.json"
    try:
        ev = json.load(open(evp))
    except Exception:
        ev = None
    rc = 0
    if ev is not None:
        ev["coverage"]["expat"] = {
            "distinct_outputs_judged_by_expat": total,
            "character_domain_documents": ndiff,
            "malformed_corpus_documents": ncorpus,
            "disagreements": len(bad),
            "expat_version": expat.EXPAT_VERSION,
        }
        ev["coverage"]["traces_validated_against_impl"] = ev["coverage"].get("traces_validated_against_impl", 0) + total
        ev["wall_s"] = ev.get("wall_s", 0) + (time.time() - t0)
    for kind, ok_m, ok_e, hx, _src in violations[:5]:
        os.makedirs(f"{VERIF}/replays/{prop}", exist_ok=True)
        path = f"{VERIF}/replays/{prop}/expat-{zlib.crc32(hx.encode()) & 0xFFFFFFFF:08x}.json"
        json.dump({"property": prop, "clause": "expat-rejects-output", "document_hex": hx,
                   "detail": "expat rejects an output document that the in-house parser accepted"}, open(path, "w"), indent=1)
        print(f"VIOLATION property={prop} replay={path}")
        rc = 1
    if ev is not None and violations:
        ev["violations"] = ev.get("violations", 0) + len(violations)
    for kind, ok_m, ok_e, hx, _src in machinery[:10]:
        print(f"MACHINERY-ERROR: in-house XML parser disagrees with expat ({kind}: xmlmini={ok_m} expat={ok_e}) on document {bytes.fromhex(hx)[:120]!r}")
        if rc == 0:
            rc = 2
    if ev is not None:
        if machinery:
            ev.setdefault("machinery_errors", []).append(f"{len(machinery)} disagreements between xmlmini and expat")
        json.dump(ev, open(evp, "w"), indent=1)
    print(f"{prop} expat cross-check: {total} distinct outputs, {ndiff} character-domain documents, {ncorpus} corpus documents, {len(bad)} disagreements, {time.time()-t0:.1f}s")
    if total == 0:
        print("MACHINERY-ERROR: no recorded outputs found for the expat cross-check")
        rc = rc or 2
    sys.exit(rc)


if __name__ == "__main__":
    try:
        main()
    except SystemExit:
        raise
    except BaseException as e:  # never let a harness failure look like a verdict
        import traceback
        traceback.print_exc()
        print("MACHINERY-ERROR: %s: %r" % (os.path.basename(__file__), e))
        sys.exit(2)
