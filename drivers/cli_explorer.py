#!/usr/bin/env python3
"""C19 — the CLI writes what the library computes and reports success truthfully.

Bounded-exhaustive exploration of the real svgbob_cli binary (black box):
all subsets of the seven value options x output modes x pre-existing states of
the output file x input modes x inputs, error cases, and `build` over all
directory contents drawn from a small set of files.  The expected document
comes from the library itself (`svgmc ref`).

  cli_explorer.py run quick|thorough
  cli_explorer.py replay <file>
exit 0 held / 1 violation / 2 machinery error
"""
import itertools, json, os, shutil, subprocess, sys, tempfile, time, hashlib, threading
from concurrent.futures import ThreadPoolExecutor

VERIF = "/verif"
REPO = "/repo"
TARGET = VERIF + "/target/repo"
CLI = TARGET + "/release/svgbob_cli"
SVGMC = VERIF + "/target/release/svgmc"
PROP = "C19"

OPTIONS = [
    ("--background", ["#ffeedd", "rgb(1, 2, 3)"], "background"),
    ("--fill-color", ["red", "#123456"], "fill_color"),
    ("--font-family", ["Times New Roman, serif", "monospace"], "font_family"),
    ("--font-size", ["9", "31"], "font_size"),
    ("--stroke-width", ["0.5", "3"], "stroke_width"),
    ("--stroke-color", ["blue", "#00ff00"], "stroke_color"),
    ("--scale", ["0.5", "2.25"], "scale"),
]

INPUTS = [
    "",
    "+--+\n|ab|\n+--+   *--> o",
    "┌──┐ 一二三\n│é │\n└──┘",
    ".-.\n| |{t}\n'-'\n# Legend:\nt = {fill:red}\n",
    "x \"quoted <&> text\" y",
    "\n".join("+--+ .-. %d" % i + "\n|  |( a )\n+--+ `-'" for i in range(60)),
    "  /\\\n /  \\\n/____\\\n\\    /\n \\  /",
    # about 13 KiB of box-drawing and CJK text: multi-byte characters lie across every 4096-byte boundary
    "\n".join("┌──┐ 一二三四五 %03d é\n│  │\n└──┘" % i for i in range(230)),
]


def build_binaries():
    env = dict(os.environ, CARGO_PROFILE_RELEASE_LTO="false", CARGO_PROFILE_RELEASE_CODEGEN_UNITS="16", CARGO_NET_OFFLINE="true")
    r = subprocess.run(["cargo", "build", "--release", "--offline", "-q", "-p", "svgbob_cli", "--target-dir", TARGET],
                       cwd=REPO, env=env, capture_output=True, text=True)
    if r.returncode != 0:
        print("MACHINERY-ERROR: cannot build svgbob_cli:\n" + r.stderr[-2000:])
        sys.exit(2)


class Ref:
    """the library's answer, from one long-lived `svgmc ref` process"""

    def __init__(self):
        self.p = subprocess.Popen([SVGMC, "ref"], stdin=subprocess.PIPE, stdout=subprocess.PIPE, text=True)
        self.cache = {}

    def doc(self, text, settings):
        key = (text, json.dumps(settings, sort_keys=True))
        if key not in self.cache:
            req = {"input_hex": text.encode().hex(), "settings": settings, "entry": "with_settings"}
            self.p.stdin.write(json.dumps(req) + "\n")
            self.p.stdin.flush()
            while True:
                line = self.p.stdout.readline()
                if not line:
                    raise RuntimeError("svgmc ref died")
                if line.startswith("@@R "):
                    r = line[4:].strip()
                    self.cache[key] = None if r.startswith("!") else bytes.fromhex(r).decode()
                    break
        return self.cache[key]


def settings_for(subset, which):
    s = {}
    argv = []
    for i in subset:
        flag, vals, field = OPTIONS[i]
        v = vals[which % len(vals)]
        argv += [flag, v]
        if field == "font_size":
            s[field] = int(v)
        elif field == "stroke_width":
            s[field] = float(v)
        elif field == "scale":
            s[field] = 8.0 * float(v)
        else:
            s[field] = v
    return argv, s


def run_cli(argv, stdin_bytes=None, cwd=None, timeout=120):
    try:
        r = subprocess.run([CLI] + argv, input=stdin_bytes if stdin_bytes is not None else b"", capture_output=True, cwd=cwd, timeout=timeout)
        return r.returncode, r.stdout, r.stderr
    except subprocess.TimeoutExpired:
        return "timeout", b"", b""


def conversion_case(case, ref):
    """case: dict(subset, which, out_mode, pre, in_mode, input_index)"""
    text = INPUTS[case["input"]]
    argv, sett = settings_for(case["subset"], case["which"])
    want = ref.doc(text, sett)
    if want is None:
        return None  # the library itself panics: C01's business
    d = tempfile.mkdtemp(prefix="c19-")
    try:
        stdin = None
        feeder = None
        if case["in_mode"] == "file":
            p = os.path.join(d, "in put.bob")
            open(p, "wb").write(text.encode())
            argv = argv + [p]
        elif case["in_mode"] == "file-symlink":
            # the file argument is a symbolic link (relative target) to the diagram
            os.mkdir(os.path.join(d, "real"))
            open(os.path.join(d, "real", "in.bob"), "wb").write(text.encode())
            p = os.path.join(d, "link.bob")
            os.symlink(os.path.join("real", "in.bob"), p)
            argv = argv + [p]
        elif case["in_mode"] == "file-fifo":
            # the file argument is a named pipe: it has no length until it has been read to the end
            p = os.path.join(d, "in.fifo")
            os.mkfifo(p)

            def feed():
                fd = os.open(p, os.O_WRONLY)  # returns once the tool (or the clean-up below) opens the other end
                try:
                    os.write(fd, text.encode())
                except OSError:
                    pass
                os.close(fd)

            feeder = threading.Thread(target=feed, daemon=True)
            feeder.start()
            argv = argv + [p]
        elif case["in_mode"] == "file-devstdin":
            # the file argument names the standard input, which is a pipe
            stdin = text.encode()
            argv = argv + ["/dev/stdin"]
        elif case["in_mode"] == "stdin":
            stdin = text.encode()
        else:
            # not expressible inline: a leading dash / a subcommand name (clap), or a literal backslash-n pair in the text itself
            if text.startswith("-") or "\\n" in text or text in ("help", "build", ""):
                return None
            argv = argv + ["-s", text.replace("\n", "\\n")]
        out_path = None
        if case["out_mode"] != "stdout":
            out_path = os.path.join(d, "out.svg")
            if case["pre"] == "empty":
                open(out_path, "wb").close()
            elif case["pre"] == "longer":
                open(out_path, "wb").write(b"STALE" * (len(want.encode()) // 5 + 50))
            argv = [("-o" if case["out_mode"] == "-o" else "--output"), out_path] + argv
        rc, so, se = run_cli(argv, stdin)
        if feeder is not None:
            # release the feeder if the tool never opened the pipe
            try:
                fd = os.open(p, os.O_RDONLY | os.O_NONBLOCK)
                feeder.join(5)
                os.close(fd)
            except OSError:
                pass
        errs = []
        if rc != 0:
            errs.append("exit status %r on a successful conversion (stderr %r)" % (rc, se[:200]))
        if se:
            errs.append("stderr not empty on success: %r" % se[:200])
        if out_path is None:
            if so != (want + "\n").encode():
                errs.append("stdout differs from the library document + newline (got %d bytes, want %d)" % (len(so), len(want.encode()) + 1))
        else:
            if so:
                errs.append("stdout not empty with an output file: %r" % so[:100])
            try:
                got = open(out_path, "rb").read()
            except OSError as e:
                got = None
                errs.append("output file missing: %s" % e)
            if got is not None and got != want.encode():
                errs.append("output file differs from the library document (got %d bytes, want %d)" % (len(got), len(want.encode())))
        return errs
    finally:
        shutil.rmtree(d, ignore_errors=True)


def stdout_failure_case(case):
    """standard output cannot be written (a full disk): the run must fail with a diagnostic"""
    text = INPUTS[1]
    d = tempfile.mkdtemp(prefix="c19-")
    try:
        argv = []
        stdin = None
        if case["in_mode"] == "file":
            p = os.path.join(d, "in.bob")
            open(p, "w").write(text)
            argv = [p]
        elif case["in_mode"] == "stdin":
            stdin = text.encode()
        else:
            argv = ["-s", text.replace("\n", "\\n")]
        try:
            with open("/dev/full", "wb") as full:
                r = subprocess.run([CLI] + argv, input=stdin if stdin is not None else b"", stdout=full, stderr=subprocess.PIPE, timeout=60)
        except OSError:
            return None
        errs = []
        if r.returncode == 0:
            errs.append("exit status 0 although the document could not be written to standard output")
        if not r.stderr:
            errs.append("no diagnostic although the document could not be written to standard output")
        return errs
    finally:
        shutil.rmtree(d, ignore_errors=True)


def error_case(case):
    if case["kind"] == "stdout-full":
        return stdout_failure_case(case)
    kind, in_mode = case["kind"], case["in_mode"]
    d = tempfile.mkdtemp(prefix="c19-")
    try:
        text = INPUTS[1]
        stdin = None
        argv = []
        out_path = None
        if kind == "missing-file":
            argv = [os.path.join(d, "nope.bob")]
        elif kind == "unreadable-file":
            # the file opens but is not UTF-8 text (one Latin-1 byte / a lone continuation byte / a truncated sequence)
            p = os.path.join(d, "latin1.bob")
            open(p, "wb").write([b"caf\xe9 +--+", b"+--+\n|\x80 |\n+--+", b"+-+ \xe4\xb8"][case["value"]])
            argv = [p]
        elif kind == "dir-as-file":
            p = os.path.join(d, "adir.bob")
            os.mkdir(p)
            argv = [p]
        else:
            if in_mode == "file":
                p = os.path.join(d, "in.bob")
                open(p, "w").write(text)
                argv = [p]
            elif in_mode == "stdin":
                stdin = text.encode()
            else:
                argv = ["-s", text.replace("\n", "\\n")]
            if kind.startswith("bad-"):
                flag = "--" + kind[4:]
                argv = [flag, case["value"]] + argv
            elif kind == "out-missing-dir":
                out_path = os.path.join(d, "no", "such", "dir", "out.svg")
                argv = ["-o", out_path] + argv
            elif kind == "out-is-dir":
                out_path = os.path.join(d, "adir")
                os.mkdir(out_path)
                argv = ["-o", out_path] + argv
        probe_out = None
        if case.get("with_o") and out_path is None:
            probe_out = os.path.join(d, "fresh-out.svg")
            argv = ["-o", probe_out] + argv
        rc, so, se = run_cli(argv, stdin)
        errs = []
        if probe_out and os.path.exists(probe_out):
            errs.append("the failed run left an output file of %d bytes behind" % os.path.getsize(probe_out))
        if rc == 0:
            errs.append("exit status 0 although the conversion could not succeed")
        if rc == "timeout":
            errs.append("the tool did not terminate")
        if not se and not so:
            errs.append("no diagnostic was printed")
        if so.lstrip().startswith(b"<svg"):
            errs.append("a document was written to stdout although the run failed")
        if out_path and os.path.isfile(out_path):
            errs.append("a (partial) output file was left behind")
        return errs
    finally:
        shutil.rmtree(d, ignore_errors=True)


BUILD_FILES = {
    "a.bob": INPUTS[1],
    "b.bob": INPUTS[2],
    "c.txt": "not a diagram source",
    "empty.bob": "",
    "d.v2.bob": INPUTS[3],
    "e f.bob": "+-+",
    "sub/": None,
}


def build_case(case, ref):
    names = case["files"]
    d = tempfile.mkdtemp(prefix="c19-")
    try:
        src = os.path.join(d, "src")
        os.mkdir(src)
        for n in names:
            if n.endswith("/"):
                os.mkdir(os.path.join(src, n[:-1]))
                open(os.path.join(src, n[:-1], "inner.bob"), "w").write("+-+")
            elif case.get("links") and n.endswith(".bob"):
                # the matching entry is a symbolic link (relative or absolute target) to the diagram kept elsewhere
                os.makedirs(os.path.join(d, "store"), exist_ok=True)
                real = os.path.join(d, "store", "real-" + n)
                open(real, "wb").write(BUILD_FILES[n].encode())
                os.symlink(real if case["links"] == "abs" else os.path.join("..", "store", "real-" + n), os.path.join(src, n))
            else:
                open(os.path.join(src, n), "wb").write(BUILD_FILES[n].encode())
        mode = case["mode"]
        cwd = None
        if mode == "outdir":
            outdir = os.path.join(d, "out")
            argv = ["build", "-i", os.path.join(src, "*.bob"), "-o", outdir]
        elif mode == "inplace":
            outdir = src
            argv = ["build", "-i", os.path.join(src, "*.bob")]
        elif mode == "cwd-default":
            outdir = src
            argv = ["build"]
            cwd = src
        else:  # missing input directory
            outdir = os.path.join(d, "out")
            argv = ["build", "-i", os.path.join(d, "nodir", "*.bob"), "-o", outdir]
        if case.get("stale"):
            # an output of the same name is already there, with other content and a modification time in the future
            os.makedirs(outdir, exist_ok=True)
            for n in names:
                if n.endswith(".bob"):
                    sp = os.path.join(outdir, n[:-4] + ".svg")
                    open(sp, "w").write("<svg>stale output of an earlier build</svg>" * (40 if case["stale"] == "longer" else 1))
                    t = time.time() + (3600 if case["stale"] != "older" else -3600)
                    os.utime(sp, (t, t))
        failing = case.get("failing")
        if failing:
            # the target of one matching file cannot be written: a directory stands in its place
            os.makedirs(os.path.join(outdir, failing[:-4] + ".svg"), exist_ok=True)
        before = set(os.listdir(src))
        rc, so, se = run_cli(argv, cwd=cwd)
        if failing:
            errs = []
            if rc == 0:
                errs.append("exit status 0 although %s could not be converted" % failing)
            if not so and not se:
                errs.append("no diagnostic for the file that failed")
            for n in names:
                if n.endswith(".bob") and n != failing:
                    p = os.path.join(outdir, n[:-4] + ".svg")
                    want = ref.doc(BUILD_FILES[n], {})
                    if not os.path.isfile(p) or (want is not None and open(p, "rb").read() != want.encode()):
                        errs.append("%s was not converted correctly next to the failing file" % n)
            return errs
        errs = []
        if mode == "missing":
            if rc == 0:
                errs.append("exit 0 for a missing input directory")
            if not so and not se:
                errs.append("no diagnostic for a missing input directory")
            return errs
        want_files = {n[:-4] + ".svg": BUILD_FILES[n] for n in names if n.endswith(".bob")}
        if rc != 0:
            errs.append("exit status %r although every file converted (stdout %r stderr %r)" % (rc, so[:200], se[:200]))
        got_files = set(os.listdir(outdir)) if os.path.isdir(outdir) else set()
        if outdir == src:
            got_files -= before
            if case.get("stale"):
                got_files |= set(want_files) & set(os.listdir(outdir))
        if got_files != set(want_files):
            errs.append("written files %r, expected %r" % (sorted(got_files), sorted(want_files)))
        for fn, text in want_files.items():
            p = os.path.join(outdir, fn)
            if os.path.isfile(p):
                want = ref.doc(text, {})
                if want is not None and open(p, "rb").read() != want.encode():
                    errs.append("%s differs from the library's default-settings document" % fn)
        lines = [l for l in so.decode(errors="replace").splitlines() if " => " in l]
        if len(lines) != len(want_files):
            errs.append("%d 'in => out' lines for %d matching files" % (len(lines), len(want_files)))
        return errs
    finally:
        shutil.rmtree(d, ignore_errors=True)


def enumerate_cases(tier):
    conv = []
    nopts = len(OPTIONS)
    subsets = [tuple(i for i in range(nopts) if m >> i & 1) for m in range(1 << nopts)]
    out_states = [("stdout", None), ("-o", "absent"), ("-o", "empty"), ("-o", "longer"), ("--output", "absent")]
    in_modes = ["file", "stdin", "inline"]
    if tier == "quick":
        # every subset x every (output, input mode) pair, the input rotating; plus every input x mode x output with no / all options
        k = 0
        for s in subsets:
            for (om, pre) in out_states[:4]:
                for im in in_modes:
                    k += 1
                    if (k + len(s)) % 3 != 0 and len(s) not in (0, 1, nopts):
                        continue
                    conv.append(dict(subset=s, which=k % 2, out_mode=om, pre=pre, in_mode=im, input=1 + k % 4 if k % 5 else 6))
        for inp in range(len(INPUTS)):
            for (om, pre) in out_states:
                for im in in_modes:
                    for s in (subsets[0], subsets[-1]):
                        if inp == 7 and (s or im == "inline"):
                            continue
                        conv.append(dict(subset=s, which=0, out_mode=om, pre=pre, in_mode=im, input=inp))
    else:
        for s in subsets:
            for which in (0, 1):
                for (om, pre) in out_states:
                    for im in in_modes:
                        for inp in range(len(INPUTS)):
                            if which == 1 and not s:
                                continue
                            if inp == 5 and (len(s) % 3 != 0):
                                continue
                            conv.append(dict(subset=s, which=which, out_mode=om, pre=pre, in_mode=im, input=inp))
    # the file argument need not be a regular file: a symbolic link, a named pipe, /dev/stdin
    for inp in range(len(INPUTS)):
        for (om, pre) in (("stdout", None), ("-o", "absent")):
            for im in ("file-symlink", "file-fifo", "file-devstdin"):
                conv.append(dict(subset=subsets[0], which=0, out_mode=om, pre=pre, in_mode=im, input=inp))
                if tier != "quick":
                    conv.append(dict(subset=subsets[-1], which=1, out_mode=om, pre=pre, in_mode=im, input=inp))
    errs = []
    for im in in_modes:
        errs.append(dict(kind="missing-file", in_mode=im))
        for flag, vals in (("font-size", ["x", "-1", "1.5", ""]), ("stroke-width", ["x", "1,5", ""]), ("scale", ["x", "2x", ""])):
            for v in vals:
                errs.append(dict(kind="bad-" + flag, in_mode=im, value=v))
        errs.append(dict(kind="out-missing-dir", in_mode=im))
        errs.append(dict(kind="out-is-dir", in_mode=im))
    for v in range(3):
        errs.append(dict(kind="unreadable-file", in_mode="file", value=v))
    errs.append(dict(kind="dir-as-file", in_mode="file"))
    errs = errs + [dict(e, with_o=True) for e in errs if not e["kind"].startswith("out-")]
    if os.path.exists("/dev/full"):
        errs = errs + [dict(kind="stdout-full", in_mode=im) for im in in_modes]
    builds = []
    names = list(BUILD_FILES)
    maxfiles = 3 if tier == "quick" else 4
    for r in range(0, maxfiles + 1):
        for combo in itertools.combinations(names, r):
            for mode in ("outdir", "inplace", "cwd-default"):
                builds.append(dict(files=list(combo), mode=mode))
    builds.append(dict(files=[], mode="missing"))
    # outputs of the same name already exist (newer than the sources, older, longer)
    for combo in (["a.bob"], ["a.bob", "b.bob", "c.txt"]):
        for stale in ("newer", "older", "longer"):
            for mode in ("outdir", "inplace"):
                builds.append(dict(files=list(combo), mode=mode, stale=stale))
    # matching entries that are symbolic links
    for combo in (["a.bob"], ["a.bob", "b.bob"], ["a.bob", "c.txt", "sub/", "d.v2.bob"], ["e f.bob", "empty.bob"]):
        for links in ("rel", "abs"):
            for mode in ("outdir", "inplace", "cwd-default"):
                builds.append(dict(files=list(combo), mode=mode, links=links))
    # one failing file among several: every choice of the failing one (directory order is not under our control)
    for combo in (["a.bob", "b.bob", "empty.bob"], ["a.bob", "d.v2.bob", "e f.bob", "b.bob"]):
        for failing in combo:
            for mode in ("outdir", "inplace"):
                builds.append(dict(files=list(combo), mode=mode, failing=failing))
    return conv, errs, builds


def load_known():
    try:
        k = json.load(open(VERIF + "/known_findings.json"))
        return [f for f in k.get("findings", []) if f.get("property") == PROP]
    except Exception:
        return []


def judge(kind, case, ref):
    if kind == "conv":
        return conversion_case(case, ref)
    if kind == "err":
        return error_case(case)
    return build_case(case, ref)


def main():
    if sys.argv[1] == "replay":
        rp = json.load(open(sys.argv[2]))
        build_binaries()
        ref = Ref()
        errs = judge(rp["kind"], rp["case"], ref)
        if errs:
            for e in errs:
                print("violation:", e)
            print("VIOLATION property=%s replay=%s" % (PROP, sys.argv[2]))
            sys.exit(1)
        print("replay: property %s holds on this case" % PROP)
        sys.exit(0)
    tier = sys.argv[2]
    seed = int(os.environ.get("VERIF_SEED", "0") or 0)
    t0 = time.time()
    build_binaries()
    if not os.path.exists(SVGMC):
        print("MACHINERY-ERROR: %s missing (run ./setup.sh)" % SVGMC)
        sys.exit(2)
    ref = Ref()
    conv, errs, builds = enumerate_cases(tier)
    # the reference process is not thread safe: resolve the expected documents first
    for c in conv:
        ref.doc(INPUTS[c["input"]], settings_for(c["subset"], c["which"])[1])
    for t in BUILD_FILES.values():
        if t is not None:
            ref.doc(t, {})
    work = [("conv", c) for c in conv] + [("err", c) for c in errs] + [("build", c) for c in builds]
    results = []
    with ThreadPoolExecutor(16) as ex:
        for (kind, case), r in zip(work, ex.map(lambda w: judge(w[0], w[1], ref), work)):
            results.append((kind, case, r))
    violations = [(k, c, r) for (k, c, r) in results if r]
    skipped = sum(1 for (_, _, r) in results if r is None)
    launches = len(results) - skipped
    outcomes = set()
    for (k, c, r) in results:
        if r is not None:
            outcomes.add((k, json.dumps({x: c[x] for x in c if x not in ("which", "input")}, sort_keys=True)))
    printed = 0
    os.makedirs(VERIF + "/replays/" + PROP, exist_ok=True)
    for (k, c, r) in violations:
        if printed < 5:
            h = hashlib.sha1(json.dumps([k, c], sort_keys=True).encode()).hexdigest()[:16]
            path = "%s/replays/%s/%s-%s.json" % (VERIF, PROP, k, h)
            json.dump({"property": PROP, "kind": k, "case": c, "detail": r, "replay_cmd": "./check replay " + path}, open(path, "w"), indent=1)
            print("  [%s] %s :: %s" % (k, json.dumps(c)[:200], "; ".join(r)[:400]))
            print("VIOLATION property=%s replay=%s" % (PROP, path))
            printed += 1
    samples = [{"kind": k, "case": c} for (k, c, _) in (results[0], results[len(results) // 3], results[2 * len(results) // 3], results[-1])]
    ev = {
        "property_id": PROP, "tier": tier, "seed": seed, "level": "model_checking",
        "coverage": {
            "states": len(results), "transitions": launches, "traces_validated_against_impl": launches,
            "samples": samples, "evaluations": len(results), "distinct_nontrivial": len(outcomes),
            "rule": "every subset of the 7 value options x {stdout, -o with the output file absent / empty / longer than the new document, --output} x {file argument, stdin, -s inline} x inputs (quick: a fixed complete sub-product: every subset and every input occurs with every output and input mode); "
                    "error cases x input modes; build over every set of up to 3 (thorough 4) files from {a.bob, b.bob, c.txt, empty.bob, d.v2.bob, 'e f.bob', sub/} x {-o outdir, in place, default pattern in the current directory}; "
                    "distinct_nontrivial = distinct (kind, option subset, modes / directory content) launched",
            "exhaustive": True,
            "scopes": [{"scope": "conversions", "size": len(conv), "completed": len(conv), "exhaustive": True},
                       {"scope": "error-cases", "size": len(errs), "completed": len(errs), "exhaustive": True},
                       {"scope": "build", "size": len(builds), "completed": len(builds), "exhaustive": True}],
            "skipped_not_expressible": skipped,
        },
        "assumptions": ["the expected document is the library's (svgmc ref, feature-off build) for the settings the options denote (scale multiplies the default 8)",
                        "inline inputs starting with '-' or equal to a subcommand name are not expressible on this command line and are skipped"],
        "wall_s": time.time() - t0, "violations": len(violations),
    }
    os.makedirs(VERIF + "/evidence", exist_ok=True)
    json.dump(ev, open(VERIF + "/evidence/%s.json" % PROP, "w"), indent=1)
    print("%s %s: %d cases, %d launches, %d distinct outcomes, %.1fs, violations=%d" % (PROP, tier, len(results), launches, len(outcomes), time.time() - t0, len(violations)))
    sys.exit(1 if violations else 0)


if __name__ == "__main__":
    try:
        main()
    except SystemExit:
        raise
    except BaseException as e:  # never let a harness failure look like a verdict
        import traceback
        traceback.print_exc()
        print("MACHINERY-ERROR: %s: %r" % (os.path.basename(__file__), e))
        sys.exit(2)
