#!/usr/bin/env python3
"""C20 — the HTTP server returns the library's conversion and survives any request.

Bounded-exhaustive exploration of the real svgbob_server binary on 127.0.0.1:
(a) all request sequences up to a length bound over an alphabet of 11 request
kinds, on fresh servers and chained on long-lived servers; (b) all interleavings
of the client-visible events of 2 (thorough: 3) concurrent clients, performed
deterministically on raw sockets.  Expected answers come from a per-request
model; 200 bodies from the library itself (`svgmc ref`, entry point to_svg).

  server_explorer.py run quick|thorough
  server_explorer.py replay <file>
"""
import itertools, json, os, socket, subprocess, sys, time, hashlib, re
from concurrent.futures import ThreadPoolExecutor

VERIF = "/verif"
REPO = "/repo"
TARGET = VERIF + "/target/repo"
SERVER = TARGET + "/release/svgbob_server"
SVGMC = VERIF + "/target/release/svgmc"
PROP = "C20"
RECV_TIMEOUT = 20.0

SMALL = "+--+\n|ab|--> *\n+--+"
HOSTILE = "</text></svg><script>alert(1)</script> \"<&>\" {x}\n# Legend:\nx = {</style><script>}\n"
BIG_FULL = "\n".join(("+--+ %04d text here" % i) + "\n|  | .-. \n+--+ '-' " for i in range(420))[:20000]
# conversion time is quadratic in the body size (20 kB: 1.5 s): the quick tier uses a 6 kB body, the thorough tier the full 20 kB
BIG = BIG_FULL[:6000] if (len(sys.argv) > 2 and sys.argv[2] == "quick") else BIG_FULL
CJK = "┌──┐ 一二三\n│é │\n└──┘"
FFFD = "a \ufffd b\n+--+ \ufffd"
# a body that begins with a byte order mark and has CRLF line ends, leading blank lines, indentation and trailing blanks:
# whatever the server "tidies" before handing the text to the library changes the answer
# bodies that differ from SMALL only in white space at the edges, in letter case, or in their line ends: a server that
# memoises, normalises or deduplicates requests must still answer each with the conversion of exactly that body
NEAR = {
    "near-lead-spaces": "    " + SMALL,
    "near-lead-newline": "\n" + SMALL,
    "near-lead-both": "\n  " + SMALL,
    "near-trail-spaces": SMALL + "   ",
    "near-trail-newline": SMALL + "\n\n",
    "near-upper": SMALL.upper(),
    "near-crlf": SMALL.replace("\n", "\r\n"),
    "near-inner-space": SMALL.replace("|ab|", "|ab |"),
}
EDGES = "\ufeff\r\n\n  +--+\r\n  |ab|\r\n  +--+ \ufeff\r\n\n\n \t\n"


def chunked(body, piece=7):
    out = b""
    for i in range(0, len(body), piece):
        part = body[i:i + piece]
        out += b"%x\r\n" % len(part) + part + b"\r\n"
    return out + b"0\r\n\r\n"


# dense non-ASCII body larger than the server's read buffer (multi-byte characters straddle every internal boundary)
DENSE = ("┌" + "─" * 60 + "┐ 一二三四五六七八九十\n") * 40
# a valid body of exactly the framework's limit (2 MiB): a small drawing padded with blanks
LIMIT = 2 * 1024 * 1024
ATLIMIT = "+--+\n|ok|\n+--+\n" + " " * (LIMIT - 15)


def version():
    m = re.search(r'^version\s*=\s*"([^"]+)"', open(REPO + "/crates/svgbob_server/Cargo.toml").read(), re.M)
    return m.group(1)


def build_binaries():
    env = dict(os.environ, CARGO_PROFILE_RELEASE_LTO="false", CARGO_PROFILE_RELEASE_CODEGEN_UNITS="16", CARGO_NET_OFFLINE="true")
    r = subprocess.run(["cargo", "build", "--release", "--offline", "-q", "-p", "svgbob_server", "--target-dir", TARGET],
                       cwd=REPO, env=env, capture_output=True, text=True)
    if r.returncode != 0:
        print("MACHINERY-ERROR: cannot build svgbob_server:\n" + r.stderr[-2000:])
        sys.exit(2)


def library_docs(texts):
    p = subprocess.Popen([SVGMC, "ref"], stdin=subprocess.PIPE, stdout=subprocess.PIPE, text=True)
    req = "".join(json.dumps({"input_hex": t.encode().hex(), "settings": {}, "entry": "to_svg"}) + "\n" for t in texts)
    out, _ = p.communicate(req)
    res = []
    for line in out.splitlines():
        if line.startswith("@@R "):
            r = line[4:].strip()
            res.append(None if r.startswith("!") else bytes.fromhex(r))
    return dict(zip(texts, res))


# request kinds: name -> (raw head builder, body bytes, expected status, expected body or None)
def kinds(docs):
    ver = ("svgbob_server " + version()).encode()

    def post(body, extra=""):
        return ("POST / HTTP/1.1\r\nHost: t\r\nContent-Length: %d\r\nConnection: close\r\n%s\r\n" % (len(body), extra)).encode()

    big_body = b"x" * (2 * 1024 * 1024 + 1)
    k = {
        "get": (b"GET / HTTP/1.1\r\nHost: t\r\nConnection: close\r\n\r\n", b"", 200, ver),
        "post-small": (post(SMALL.encode()), SMALL.encode(), 200, docs[SMALL]),
        "post-empty": (post(b""), b"", 200, docs[""]),
        "post-hostile": (post(HOSTILE.encode()), HOSTILE.encode(), 200, docs[HOSTILE]),
        "post-20k": (post(BIG.encode()), BIG.encode(), 200, docs[BIG]),
        "post-cjk": (post(CJK.encode()), CJK.encode(), 200, docs[CJK]),
        # a valid body that contains the replacement character itself
        "post-fffd": (post(FFFD.encode()), FFFD.encode(), 200, docs[FFFD]),
        "post-raw-edges": (post(EDGES.encode()), EDGES.encode(), 200, docs[EDGES]),
        # the same small diagram sent with chunked transfer encoding (no Content-Length)
        "post-chunked": (b"POST / HTTP/1.1\r\nHost: t\r\nTransfer-Encoding: chunked\r\nConnection: close\r\n\r\n", chunked(SMALL.encode()), 200, docs[SMALL]),
        "post-dense-unicode": (post(DENSE.encode()), DENSE.encode(), 200, docs[DENSE]),
        **{n: (post(b.encode()), b.encode(), 200, docs[b]) for n, b in NEAR.items()},
        "post-bad-utf8": (post(b"+-\xff\xfe-+"), b"+-\xff\xfe-+", 400, None),
        "post-too-big": (post(big_body), big_body, 413, None),
        "post-at-limit": (post(ATLIMIT.encode()), ATLIMIT.encode(), 200, docs[ATLIMIT]),
        "put": (b"PUT / HTTP/1.1\r\nHost: t\r\nContent-Length: 2\r\nConnection: close\r\n\r\n", b"ab", 405, None),
        "get-other-path": (b"GET /x HTTP/1.1\r\nHost: t\r\nConnection: close\r\n\r\n", b"", 404, None),
        "garbage": (b"\x00\x01 this is not http\r\n\r\n", b"", "reject", None),
        "abandon": (post(b"x" * 1000), b"x" * 100, "abandon", None),
        # sends a complete, slow request and hangs up while it is being converted
        "impatient": (post(BIG_FULL.encode()), BIG_FULL.encode(), "impatient", None),
    }
    return k


_PORT_LOCK = __import__("threading").Lock()


class Server:
    def __init__(self, stdout="devnull", nofile=None):
        """stdout: "devnull"; "pipe-unread" = a pipe nobody ever reads; "pipe-closed" = a pipe whose reader goes away
        once the server is up.  nofile: a soft and hard RLIMIT_NOFILE for the server process."""
        # one server start at a time: the port is probed, the server started, and only a server
        # that is both listening and still alive (it exits when the port was taken) is accepted
        with _PORT_LOCK:
            last = None
            for _attempt in range(20):
                s = socket.socket()
                s.bind(("127.0.0.1", 0))
                self.port = s.getsockname()[1]
                s.close()
                argv = [SERVER] if nofile is None else ["/bin/sh", "-c", "ulimit -n %d; exec \"$0\"" % nofile, SERVER]
                self.p = subprocess.Popen(argv, env=dict(os.environ, PORT=str(self.port)),
                                          stdout=subprocess.DEVNULL if stdout == "devnull" else subprocess.PIPE, stderr=subprocess.DEVNULL)
                ok = False
                for _ in range(300):
                    if self.p.poll() is not None:
                        break
                    try:
                        c = socket.create_connection(("127.0.0.1", self.port), timeout=1)
                        c.close()
                        ok = True
                        break
                    except OSError as e:
                        last = e
                        time.sleep(0.02)
                if ok and self.p.poll() is None:
                    if stdout == "pipe-closed":
                        # the start-up line was written before the socket was bound; from now on nobody listens
                        self.p.stdout.close()
                    return
                try:
                    self.p.kill()
                    self.p.wait()
                except OSError:
                    pass
            raise RuntimeError("server did not start: %r" % (last,))

    def alive(self):
        return self.p.poll() is None

    def stop(self):
        self.p.kill()
        self.p.wait()


def read_response(c):
    c.settimeout(RECV_TIMEOUT)
    data = b""
    try:
        while True:
            chunk = c.recv(65536)
            if not chunk:
                break
            data += chunk
    except socket.timeout:
        return "timeout", data
    except OSError:
        pass
    if not data:
        return "closed", b""
    head, _, body = data.partition(b"\r\n\r\n")
    try:
        status = int(head.split(b" ")[1])
    except Exception:
        return "unparsable", data
    if b"transfer-encoding: chunked" in head.lower():
        out = b""
        rest = body
        while rest:
            line, _, rest = rest.partition(b"\r\n")
            try:
                n = int(line.split(b";")[0], 16)
            except ValueError:
                break
            if n == 0:
                break
            out += rest[:n]
            rest = rest[n + 2:]
        body = out
    return status, body


def send_all(c, data):
    try:
        c.sendall(data)
    except OSError:
        pass  # the server may answer (413) and close before the whole body is sent


def judge_response(kind, spec, status, body):
    _head, _body, want_status, want_body = spec
    if want_status in ("abandon", "impatient"):
        return []
    if want_status == "reject":
        if status in (400, "closed"):
            return []
        return ["malformed request answered with %r" % (status,)]
    errs = []
    if status != want_status:
        errs.append("%s: status %r, expected %r" % (kind, status, want_status))
    elif want_body is not None and body != want_body:
        errs.append("%s: body differs from the library's conversion (%d bytes, expected %d)" % (kind, len(body), len(want_body)))
    return errs


def do_request(port, kind, spec):
    head, body, want_status, _ = spec
    try:
        c = socket.create_connection(("127.0.0.1", port), timeout=5)
    except OSError as e:
        return ["%s: cannot connect: %s" % (kind, e)]
    try:
        send_all(c, head)
        send_all(c, body)
        if want_status == "abandon":
            c.close()
            return []
        if want_status == "impatient":
            time.sleep(0.15)
            c.close()
            return []
        status, rbody = read_response(c)
        return judge_response(kind, spec, status, rbody)
    finally:
        try:
            c.close()
        except OSError:
            pass


def probe(port, K):
    return do_request(port, "get", K["get"])


def run_sequence(seq, K, server=None):
    own = server is None
    srv = server or Server()
    errs = []
    try:
        for i, kind in enumerate(seq):
            for e in do_request(srv.port, kind, K[kind]):
                errs.append("request #%d of %r: %s" % (i, seq, e))
        for e in probe(srv.port, K):
            errs.append("after %r the server no longer answers a GET correctly: %s" % (seq, e))
        if not srv.alive():
            errs.append("after %r the server process has exited" % (seq,))
    finally:
        if own:
            srv.stop()
    return errs


EVENTS = ["connect", "head", "body1", "body2", "recv"]


def split_point(body):
    """the byte offset where the body is cut in two: inside a multi-byte character near the middle when there is one"""
    mid = len(body) // 2
    for d in range(0, min(len(body) // 2, 16)):
        for i in (mid + d, mid - d):
            if 0 < i < len(body) and (body[i] & 0xC0) == 0x80:
                return i
    return mid


def run_interleaving(kinds_, order, K, server):
    """order: sequence of client indices; the j-th occurrence of client i performs its j-th event"""
    n = len(kinds_)
    socks = [None] * n
    step = [0] * n
    errs = []
    for ci in order:
        kind = kinds_[ci]
        head, body, want_status, _ = K[kind]
        ev = EVENTS[step[ci]]
        step[ci] += 1
        try:
            if ev == "connect":
                socks[ci] = socket.create_connection(("127.0.0.1", server.port), timeout=5)
            elif ev == "head":
                send_all(socks[ci], head)
            elif ev == "body1":
                send_all(socks[ci], body[: split_point(body)])
                time.sleep(0.002)  # let the first half arrive as a segment of its own
            elif ev == "body2":
                send_all(socks[ci], body[split_point(body):])
            else:
                if want_status in ("abandon", "impatient"):
                    # the client walks away (in the middle of its body / while its request is converted)
                    if want_status == "impatient":
                        time.sleep(0.15)
                    socks[ci].close()
                    continue
                status, rbody = read_response(socks[ci])
                for e in judge_response(kind, K[kind], status, rbody):
                    errs.append("client %d (%s) under event order %r: %s" % (ci, kind, order, e))
                socks[ci].close()
        except OSError as e:
            errs.append("client %d (%s) event %s failed: %s" % (ci, kind, ev, e))
    for e in probe(server.port, K):
        errs.append("after interleaving %r of %r the probe GET fails: %s" % (order, kinds_, e))
    return errs


def interleavings(n_clients, n_events):
    """all orders of n_clients x n_events events preserving each client's own order"""
    def rec(left):
        if all(l == 0 for l in left):
            yield ()
            return
        for i in range(len(left)):
            if left[i]:
                l2 = list(left)
                l2[i] -= 1
                for rest in rec(tuple(l2)):
                    yield (i,) + rest
    return list(rec(tuple([n_events] * n_clients)))


def main():
    mode = sys.argv[1]
    build_binaries()
    docs = library_docs([SMALL, "", HOSTILE, BIG, CJK, ATLIMIT, DENSE, FFFD, EDGES] + list(NEAR.values()))
    if any(v is None for v in docs.values()) or len(docs) != 9 + len(NEAR):
        print("MACHINERY-ERROR: cannot obtain the library's documents")
        sys.exit(2)
    K = kinds(docs)
    if mode == "replay":
        rp = json.load(open(sys.argv[2]))
        if rp["kind"] == "burst":
            print("a burst is a sample of machine schedules and cannot be replayed exactly; re-run ./check C20 quick")
            sys.exit(0)
        if rp["kind"] == "sequence" and ("stdout" in rp["case"].get("server", "") or "descriptor" in rp["case"].get("server", "")):
            print("this case depends on the server's environment (its standard output / descriptor limit); re-run ./check C20 quick")
            sys.exit(0)
        if rp["kind"] == "sequence":
            errs = run_sequence(rp["case"]["seq"], K)
        else:
            s = Server()
            errs = run_interleaving(rp["case"]["kinds"], rp["case"]["order"], K, s)
            s.stop()
        if errs:
            for e in errs:
                print("violation:", e)
            print("VIOLATION property=%s replay=%s" % (PROP, sys.argv[2]))
            sys.exit(1)
        print("replay: property %s holds on this case" % PROP)
        sys.exit(0)
    tier = sys.argv[2]
    seed = int(os.environ.get("VERIF_SEED", "0") or 0)
    t0 = time.time()
    names = [k for k in K if not k.startswith("near-")]
    cheap = [k for k in names if k not in ("post-too-big", "post-20k", "post-at-limit", "post-dense-unicode", "impatient")]
    # (a) sequences
    fresh = [(k,) for k in names] + [p for p in itertools.product(names, repeat=2)]
    chained = list(itertools.product(cheap, repeat=3))
    if tier == "thorough":
        fresh += list(itertools.product(cheap, repeat=3))
        chained = list(itertools.product(["get", "post-small", "post-hostile", "post-bad-utf8", "garbage", "abandon", "post-20k"], repeat=4))
    results = []

    def fresh_job(seq):
        return ("sequence", {"seq": list(seq), "server": "fresh"}, run_sequence(list(seq), K))

    def chained_job(chunk):
        srv = Server()
        out = []
        try:
            for seq in chunk:
                out.append(("sequence", {"seq": list(seq), "server": "long-lived"}, run_sequence(list(seq), K, srv)))
                if not srv.alive():
                    srv = Server()
        finally:
            srv.stop()
        return out

    nworkers = 12
    with ThreadPoolExecutor(nworkers) as ex:
        for r in ex.map(fresh_job, fresh):
            results.append(r)
        chunks = [chained[i::nworkers] for i in range(nworkers)]
        # plus the concatenation of all of them on ONE long-lived server (state that accumulates over many requests)
        chunks.append(list(chained))
        for out in ex.map(chained_job, chunks):
            results.extend(out)
    # impatient clients followed by ordinary requests, on one long-lived server
    def impatient_job(_):
        srv = Server()
        out = []
        try:
            for seq in (["impatient", "post-small"], ["impatient", "impatient", "post-hostile", "get"], ["post-small", "impatient", "post-cjk", "post-small"]):
                out.append(("sequence", {"seq": seq, "server": "long-lived"}, run_sequence(seq, K, srv)))
                time.sleep(2.0)  # let the abandoned conversions finish
                out.append(("sequence", {"seq": ["post-small", "post-20k"], "server": "long-lived after impatient clients"}, run_sequence(["post-small", "post-20k"], K, srv)))
        finally:
            srv.stop()
        return out

    def burst_job(_):
        """supplementary (a sample of machine schedules, can only add violations): 16 free-running clients, each posting its own body repeatedly"""
        srv = Server()
        errs = []
        bodies = ["+--+ %d\n|  |\n+--+" % i for i in range(14)]
        want = library_docs(bodies)
        rounds = 60 if tier == "quick" else 400

        def client(i):
            e = []
            spec = (("POST / HTTP/1.1\r\nHost: t\r\nContent-Length: %d\r\nConnection: close\r\n\r\n" % len(bodies[i].encode())).encode(), bodies[i].encode(), 200, want[bodies[i]])
            for r in range(rounds):
                for x in do_request(srv.port, "burst-client-%d" % i, spec):
                    e.append("round %d: %s" % (r, x))
                    return e
            return e

        try:
            with ThreadPoolExecutor(14) as ex2:
                for e in ex2.map(client, range(14)):
                    errs.extend(e)
        finally:
            srv.stop()
        return [("burst", {"clients": 14, "rounds": rounds}, errs)]

    def environment_job(which):
        """the server's own environment: a standard output that is never read or has gone away, and a low descriptor limit"""
        out = []
        if which in ("pipe-unread", "pipe-closed"):
            srv = Server(stdout=which)
            try:
                for seq in (["get", "post-small", "post-bad-utf8", "post-hostile"], ["post-small", "post-small", "get"]):
                    out.append(("sequence", {"seq": seq, "server": "long-lived, stdout " + which}, run_sequence(seq, K, srv)))
                # a long run of requests on the same server (whatever it writes per request accumulates in the pipe)
                n = 1600 if tier == "quick" else 6000
                errs = []
                cyc = ["post-small", "post-bad-utf8", "get", "post-hostile"]
                for i in range(n):
                    e = do_request(srv.port, cyc[i % 4], K[cyc[i % 4]])
                    if e:
                        errs.append("request #%d of a run of %d on a server whose stdout is %s: %s" % (i, n, which, e[0]))
                        break
                if not srv.alive():
                    errs.append("the server process has exited")
                out.append(("sequence", {"seq": ["soak", n], "server": "long-lived, stdout " + which}, errs))
            finally:
                srv.stop()
        else:
            srv = Server(nofile=64)
            conns = []
            try:
                out.append(("sequence", {"seq": ["get", "post-small"], "server": "descriptor limit 64"}, run_sequence(["get", "post-small"], K, srv)))
                # 200 idle connections: more than the server can hold open
                for _ in range(200):
                    try:
                        c = socket.socket()
                        c.settimeout(0.2)
                        c.connect(("127.0.0.1", srv.port))
                        conns.append(c)
                    except OSError:
                        try:
                            c.close()
                        except OSError:
                            pass
                time.sleep(2.0)
                for c in conns:
                    try:
                        c.close()
                    except OSError:
                        pass
                conns = []
                time.sleep(3.0)
                errs = run_sequence(["get", "post-small", "post-bad-utf8"], K, srv)
                out.append(("sequence", {"seq": ["200 idle connections", "get", "post-small", "post-bad-utf8"], "server": "descriptor limit 64"}, errs))
            finally:
                for c in conns:
                    try:
                        c.close()
                    except OSError:
                        pass
                srv.stop()
        return out

    def near_job(_):
        # every ordered pair and triple of near-equal bodies (and SMALL itself) on ONE long-lived server
        fam = ["post-small"] + list(NEAR)
        srv = Server()
        out = []
        try:
            for n in (2, 3):
                for seq in itertools.product(fam, repeat=n):
                    if len(set(seq)) < 2:
                        continue
                    out.append(("sequence", {"seq": list(seq), "server": "long-lived"}, run_sequence(list(seq), K, srv)))
                    if not srv.alive():
                        srv = Server()
        finally:
            srv.stop()
        return out

    with ThreadPoolExecutor(5) as ex:
        near_fut = ex.submit(near_job, 0)
        futs = [ex.submit(environment_job, w) for w in ("pipe-unread", "pipe-closed", "nofile")]
        for out in ex.map(impatient_job, [0]):
            results.extend(out)
        for fu in futs:
            results.extend(fu.result())
        results.extend(near_fut.result())
    with ThreadPoolExecutor(1) as ex:
        for out in ex.map(burst_job, [0]):
            results.extend(out)
    # (b) interleavings of client events
    pairs = [("post-small", "post-hostile"), ("post-small", "get"), ("post-bad-utf8", "post-small"), ("post-small", "post-small"),
             ("abandon", "post-small"), ("garbage", "post-cjk"), ("post-cjk", "post-cjk"), ("put", "post-empty"), ("post-20k", "post-small"), ("post-too-big", "post-small")]
    orders2 = interleavings(2, 5)
    jobs = [(list(p), list(o)) for p in pairs for o in orders2]
    if tier == "thorough":
        orders3 = interleavings(3, 4)
        for t in [("post-small", "post-hostile", "get"), ("post-small", "post-bad-utf8", "abandon"), ("post-cjk", "post-small", "post-empty")]:
            # with 4 events the body is sent in one piece
            jobs += [(list(t), list(o)) for o in orders3]

    def inter_job(chunk):
        srv = Server()
        out = []
        try:
            for (ks, order) in chunk:
                if len(ks) == 3:
                    global EVENTS
                errs = run_interleaving(ks, order, K, srv) if len(ks) == 2 else run_interleaving3(ks, order, K, srv)
                out.append(("interleaving", {"kinds": ks, "order": order}, errs))
                if not srv.alive():
                    srv = Server()
        finally:
            srv.stop()
        return out

    with ThreadPoolExecutor(nworkers) as ex:
        chunks = [jobs[i::nworkers] for i in range(nworkers)]
        for out in ex.map(inter_job, chunks):
            results.extend(out)
    violations = [(k, c, r) for (k, c, r) in results if r]
    def nreq(c):
        if "clients" in c:
            return c["clients"] * c["rounds"]
        seq = c.get("seq", c.get("kinds", []))
        if seq and seq[0] == "soak":
            return seq[1]
        return len(seq) + 1
    requests = sum(nreq(c) for (_, c, _) in results)
    outcomes = set()
    for (k, c, r) in results:
        outcomes.add((k, json.dumps(c.get("seq", c.get("kinds", c.get("clients"))))))
    os.makedirs(VERIF + "/replays/" + PROP, exist_ok=True)
    for (k, c, r) in violations[:5]:
        h = hashlib.sha1(json.dumps([k, c], sort_keys=True).encode()).hexdigest()[:16]
        path = "%s/replays/%s/%s-%s.json" % (VERIF, PROP, k, h)
        json.dump({"property": PROP, "kind": k, "case": c, "detail": r, "replay_cmd": "./check replay " + path}, open(path, "w"), indent=1)
        print("  [%s] %s :: %s" % (k, json.dumps(c)[:160], "; ".join(r)[:500]))
        print("VIOLATION property=%s replay=%s" % (PROP, path))
    nseq = sum(1 for (k, _, _) in results if k == "sequence")
    nint = len(results) - nseq
    samples = [{"kind": k, "case": c} for (k, c, _) in (results[0], results[len(results) // 2], results[-1])]
    ev = {
        "property_id": PROP, "tier": tier, "seed": seed, "level": "model_checking",
        "coverage": {
            "states": len(results), "transitions": requests, "traces_validated_against_impl": requests,
            "samples": samples, "evaluations": len(results), "distinct_nontrivial": len(outcomes),
            "rule": "(a) every sequence of up to 2 (thorough 3) requests over 19 request kinds on a fresh server, and every sequence of 3 (thorough 4 over 7 state-relevant kinds) chained on long-lived servers, each followed by a probe GET; "
                    "(b) for 10 pairs (thorough also 3 triples) of request kinds every interleaving of the clients' events connect / send head / send first body half (cut inside a multi-byte character when there is one) / send second half / receive (252 orders for two clients; 34650 for three clients with 4 events), performed deterministically on raw sockets. "
                    "(c) the server's environment: the same sequences and a run of 1600 (thorough 6000) requests on a server whose standard output is a pipe nobody reads, and one whose reader has gone away; a server limited to 64 descriptors facing 200 idle connections, then ordinary requests. "
                    "Every response is compared with the per-request model (200 + the library's to_svg document, 400, 413, 405, 404, version string). distinct_nontrivial = distinct request sequences / kind tuples",
            "exhaustive": True,
            "scopes": [{"scope": "sequences", "size": nseq, "completed": nseq, "exhaustive": True},
                       {"scope": "interleavings", "size": nint, "completed": nint, "exhaustive": True}],
        },
        "assumptions": ["the server's internal task scheduling is not controlled; what is enumerated completely is the order of client-visible events",
                        "POST bodies are bounded at 20 kB (quick tier: 6 kB) except for the 413 probe (conversion time is quadratic in the body size)"],
        "wall_s": time.time() - t0, "violations": len(violations),
    }
    os.makedirs(VERIF + "/evidence", exist_ok=True)
    json.dump(ev, open(VERIF + "/evidence/%s.json" % PROP, "w"), indent=1)
    print("%s %s: %d sequences, %d interleavings, %d requests, %.1fs, violations=%d" % (PROP, tier, nseq, nint, requests, time.time() - t0, len(violations)))
    sys.exit(1 if violations else 0)


def run_interleaving3(kinds_, order, K, server):
    """three clients, four events: connect, head, body, recv"""
    n = len(kinds_)
    socks = [None] * n
    step = [0] * n
    errs = []
    ev4 = ["connect", "head", "body", "recv"]
    for ci in order:
        kind = kinds_[ci]
        head, body, want_status, _ = K[kind]
        ev = ev4[step[ci]]
        step[ci] += 1
        try:
            if ev == "connect":
                socks[ci] = socket.create_connection(("127.0.0.1", server.port), timeout=5)
            elif ev == "head":
                send_all(socks[ci], head)
            elif ev == "body":
                send_all(socks[ci], body)
            else:
                if want_status in ("abandon", "impatient"):
                    # the client walks away (in the middle of its body / while its request is converted)
                    if want_status == "impatient":
                        time.sleep(0.15)
                    socks[ci].close()
                    continue
                status, rbody = read_response(socks[ci])
                for e in judge_response(kind, K[kind], status, rbody):
                    errs.append("client %d (%s) under event order %r: %s" % (ci, kind, order, e))
                socks[ci].close()
        except OSError as e:
            errs.append("client %d (%s) event %s failed: %s" % (ci, kind, ev, e))
    for e in probe(server.port, K):
        errs.append("after interleaving %r of %r the probe GET fails: %s" % (order, kinds_, e))
    return errs


if __name__ == "__main__":
    try:
        main()
    except SystemExit:
        raise
    except BaseException as e:  # never let a harness failure look like a verdict
        import traceback
        traceback.print_exc()
        print("MACHINERY-ERROR: %s: %r" % (os.path.basename(__file__), e))
        sys.exit(2)
