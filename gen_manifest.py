#!/usr/bin/env python3
"""Generates MANIFEST.json from the table below (single source of truth)."""
import json
BASE = "cd /repo && cargo nextest run --workspace --no-fail-fast --test-threads 8 --offline || cargo test --workspace --no-fail-fast --offline"
checks = {
 "C06": dict(tech="bounded-exhaustive enumeration of drawings x page offsets on the real library; metamorphic oracle (translated element multiset)",
    text="Every drawing of the enumerated scopes (all 2-character neighbourhoods over the live drawing alphabets, all parametric shape families, the bundled examples; thorough: all sparse 3x3 grids and complete offset rows 0..400 for float-geometry shapes) is converted at the origin and at each offset; all coordinates must move by exactly the shift and nothing else may change.",
    note="Relative to the stated finite scopes; tolerance 1e-3 cell; trusts the in-house XML/SVG parser (bound to expat by the C02 check)."),
}
pending = {}
allp = ["C%02d" % i for i in range(1, 21)]
m = {
 "version": 1,
 "setup_cmd": "./setup.sh",
 "hooks": {
   "guard": "cargo feature `verif` of crate svgbob (not yet committed)",
   "enable": "engine package svgmc7 depends on svgbob with features=[\"verif\"]; all other checks use the feature-off build",
   "baseline_off_cmd": BASE,
   "source_commits": [],
   "add_only": True,
 },
 "engines": [
   {"name": "svgmc", "path": "engine/svgmc", "serves_properties": sorted(checks), "kind_free_text": "bounded-exhaustive explorer of the real svgbob library in isolated worker processes, with reference models and metamorphic oracles"},
 ],
 "checks": [],
 "notes": "All checks: exit 0 held / 1 violation / 2 machinery error. Known findings in known_findings.json.",
 "not_applicable": [],
}
for pid in allp:
    if pid in checks:
        c = checks[pid]
        m["checks"].append({
          "property_id": pid,
          "quick_cmd": "./check %s quick" % pid,
          "thorough_cmd": "./check %s thorough" % pid,
          "evidence_file": "/verif/evidence/%s.json" % pid,
          "replay_cmd_template": "./check replay {path}",
          "engine": c.get("engine", "svgmc"),
          "level_claimed": {"category": "model_checking", "text": c["text"], "design_ref": "DESIGN.md §5 " + pid},
          "level_note": c["note"],
          "technique": c["tech"],
        })
    else:
        m["not_applicable"].append({"property_id": pid, "reason": pending.get(pid, "check not built yet in this round (planned as bounded-exhaustive model checking, see DESIGN.md §5); not claimed until its command exists")})
json.dump(m, open("/verif/MANIFEST.json", "w"), indent=1)
print("checks:", len(m["checks"]), "not_applicable:", len(m["not_applicable"]))
