#!/usr/bin/env python3
"""Generates MANIFEST.json from the table below (single source of truth)."""
import json
BASE = "cd /repo && cargo nextest run --workspace --no-fail-fast --test-threads 8 --offline || cargo test --workspace --no-fail-fast --offline"
NOTE = "Relative to the stated finite scopes (see the evidence file for which completed); trusts the in-house XML/SVG parser, which the C02 check binds to expat over every Unicode scalar and every distinct output."
checks = {
 "C01": dict(tech="bounded-exhaustive enumeration of inputs and configurations on the real library in isolated worker processes (panic / abort / stack overflow / stall detection) plus growth-ratio measurement on doubling families",
    text="Every input of the enumerated spaces (all 2- and 3-character neighbourhoods of the drawing alphabets, all short rows over the quote/escape alphabet, all short legend-grammar and brace strings, every Unicode scalar in 3 contexts, every single-cell corruption of the catalogue circles, bullets/arrows on every slope, a corpus x extreme scales x switches x all 5 entry points) is run; any panic, abort, overflow or stall is a violation with a replay file. Growth families bound the time ratio between sizes n and 2n.",
    note=NOTE + " The polynomial-time clause is decided as a bounded growth ratio on listed families, not as a complexity proof."),
 "C02": dict(tech="bounded-exhaustive enumeration of characters/strings x sinks x switches on the real library; strict XML parser as oracle, itself model-checked against expat over the whole character domain; text round-trip oracle",
    text="Every scalar of the tier's set and every short string over a markup alphabet is pushed through each of six sinks; every output must be well-formed (in-house strict parser and expat), have the SVG root, and give the text back. Plus every string up to length 5 over {], >, U+0001, U+FFFE, x} in three sinks (a CDATA end must never reach character data).",
    note="Settings strings are outside the property. Round trip for plain sinks is sub/super-sequence based because drawing characters may legitimately become geometry."),
 "C03": dict(tech="bounded-exhaustive enumeration of all small grids on the real library; independent reference renderer; exact integer stroke-set comparison",
    text="All grids over {space,-,|,+} up to 3x3/2x4/4x2/1x8/8x1 (complete) and slices (quick) or all (thorough) of 3x4/4x3/2x6/6x2, grids with labels, and boxes with 1-2 corrupted cells are rendered and compared with an independent per-character reference renderer as exact sets of unit stroke pieces and text cells. Plus two collinear strokes around a one-cell gap with the first up to 200 (260) cells long.",
    note=NOTE),
 "C04": dict(tech="bounded-exhaustive enumeration of all short rows over a mixed-width alphabet on the real library; reference model of display columns",
    text="All rows up to length 5 (7) over ASCII/2-byte/double-width/line characters, alone, forced into one span, in three-row documents and inside a box: every label character must be shown exactly once, in its own display cell. Plus every printable scalar U+00A1..U+3100 (and block ends above) followed by a label.",
    note=NOTE),
 "C05": dict(tech="bounded-exhaustive enumeration of box families and small grids on the real library; exact geometric prediction (completeness) and border-character oracle (soundness)",
    text="Every box of 9 styles x sizes x offsets x interiors x side patterns must be exactly one predicted rect; every rect emitted for any grid of the soundness scopes must lie on border characters. Plus near-boxes (one-cell overhangs) at every size up to 128 x 70 cells.",
    note=NOTE + " One known finding (box-drawing rounded box of inner width 0)."),
 "C06": dict(tech="bounded-exhaustive enumeration of drawings x page offsets on the real library; metamorphic oracle (translated element multiset)",
    text="Every drawing of the enumerated scopes is converted at the origin and at each offset; all coordinates must move by exactly the shift and nothing else may change.",
    note=NOTE + " Tolerance 1e-3 cell."),
 "C08": dict(tech="bounded-exhaustive enumeration of payloads/strings x channels x contexts on the real library; output-grammar whitelist oracle on the parsed tree; expat cross-check of every distinct output",
    text="26 marker-carrying payloads and all strings up to length 3 (4) over 13 markup characters in 5 channels x 4 contexts: the parsed output may contain only svgbob's vocabulary, nesting, attribute grammars; markers only in character data or class tokens.",
    note=NOTE),
 "C09": dict(tech="bounded-exhaustive enumeration of runs and small grids on the real library; exact rational geometry oracle",
    text="Runs of 17 line characters x lengths up to 400 x offsets and all mixed dashed/solid runs must be one line (two for double lines); no output of the grid scopes may contain two unmarked collinear touching lines. Plus runs with a perpendicular stub on every one of their cells (the run must still be covered by one line).",
    note=NOTE),
 "C10": dict(tech="bounded-exhaustive enumeration of component pairs/triples x layouts x gaps on the real library; metamorphic oracle (union of separately rendered parts)",
    text="All ordered pairs of ~50 components (and triples of a subset, and all pairs of 2x2 grids over 5 characters) side by side / stacked with gaps 1..3 must render as the shifted union of their separate renderings.",
    note=NOTE),
 "C11": dict(tech="bounded-exhaustive enumeration of inputs x scales on the real library; metamorphic oracle (scaled element multiset)",
    text="Every input of the scopes at scales {0.5,1,3,10,20,37.5} must equal its scale-8 rendering multiplied by s/8; absolute clause for '-' and '|'.",
    note=NOTE + " One known finding (tags at scales below 1)."),
 "C12": dict(tech="bounded-exhaustive enumeration of inputs x scales on the real library; canvas formula and exact bounding-box containment oracle",
    text="Canvas formula over occupied display cells and containment of the exact bounding box of every element, over all 2-character neighbourhoods, label/wide/combining pairs, shape families at the page edges, 3 scales.",
    note=NOTE + " One known finding (quoted text is not part of the canvas; pinned by the test escaped_shape)."),
 "C13": dict(tech="bounded-exhaustive enumeration of catalogue drawings x offsets x contexts on the real library; geometric oracle computed from the drawing only",
    text="Each of the 22 documented circle drawings at every offset of the tier's offset rectangle, alone and next to unrelated content, must be exactly one circle with the predicted extent and radius within the annulus tolerance.",
    note=NOTE),
 "C14": dict(tech="bounded-exhaustive enumeration of arrow / bullet / rounded-outline families on the real library; exact integer geometric oracle",
    text="All arrows (8 directions x glyphs x line characters x lengths), bullets (3 kinds x 8 directions x end/mid x lengths) and rounded outlines with a stub (sizes x corner styles x stub positions) satisfy the tip/axis/base, marker-centre and arc continuity/convexity clauses.",
    note=NOTE),
 "C15": dict(tech="bounded-exhaustive enumeration of all short rows with quotes on the real library; reference quote scanner + metamorphic oracle (blanked row)",
    text="All rows up to length 6 (7) over {\",a,-,|,wide,2-byte,<,space}: rendering equals that of the blanked row plus one verbatim text per quote pair.",
    note=NOTE + " No backslashes (per the quantifier)."),
 "C16": dict(tech="bounded-exhaustive enumeration of legend entry sequences and tag placements on the real library; reference model of the style text and of tag attachment",
    text="All sequences of up to 2 (3) legend entries (and chains to 6) x headers x trailing lines x diagrams; 5 shapes x 5 tags x every grid position x with/without a neighbouring word.",
    note=NOTE),
 "C17": dict(tech="bounded-exhaustive enumeration of documents x line-ending and trailing-blank variants on the real library; metamorphic oracle (parsed documents equal)",
    text="All documents of up to 2 (3) lines from 12 templates x {LF,CRLF} x trailing blank per line x 0..5 trailing blank lines render like the plain LF document.",
    note=NOTE),
 "C07": dict(engine="svgmc7", tech="explicit enumeration of call histories (fresh processes), of corpus orders across 16 processes, of all n! hash-iteration orders at an instrumented seam, and stateless schedule exploration (iterative preemption bounding) of the real library under an owned scheduler",
    text="(a) all histories up to length 3 (4) over a 12-conversion alphabet, each in a fresh process with the real once_cell tables; (b) a 15k (117k) input corpus converted in 16 different orders by 16 fresh processes and compared output by output; (c) all n! iteration orders of the property map for all sparse 3x3 grids, structured orders with table rebuild for larger drawings; (d) all interleavings of 2-3 threads from the uninitialised table state with at most 2 (3) preemptions at instrumented points; one schedule replayed twice. Schedule harnesses include two threads converting one tagged drawing at different scales, with scheduling points inside the node-building stage.",
    note="Schedules are explored at inserted points and lazy-table events (feature `verif`), sequentially consistent; the hash seed of containers other than the instrumented one is covered only by process/repetition sampling (can only add violations)."),
 "C19": dict(engine="cli_explorer", tech="bounded-exhaustive enumeration of option subsets x output modes and pre-states x input modes x inputs, error cases and build directories against the real CLI binary; differential oracle (library document via the engine)",
    text="Every subset of the 7 value options x stdout / -o (target absent, empty, longer) / --output x file / stdin / inline x inputs; error cases x input modes; build over every set of up to 3 (4) files x output modes: bytes, exit status, stderr, written files compared with the library and the per-case model.",
    note="Black-box runs of the release binary built from the working tree; expected documents from the feature-off engine."),
 "C20": dict(engine="server_explorer", tech="bounded-exhaustive enumeration of request sequences and of client-event interleavings against the real server binary; per-request reference model + library differential",
    text="All request sequences up to length 2 (3) over 13 request kinds on fresh servers, all length-3 (4) sequences chained on long-lived servers and concatenated on one server; all 252 interleavings of the events of two clients for 9 kind pairs (thorough: 34650 orders of three clients for 3 triples); every response compared with the model. Plus all ordered pairs and triples of 9 near-equal bodies (edge blanks, line ends, case) on one long-lived server.",
    note="The server's internal scheduling is not controlled: what is enumerated completely is the order of client-visible events. Bodies up to 20 kB (quick 6 kB) plus an exactly-2-MiB blank-padded body and the 413 probe."),
 "C18": dict(tech="bounded-exhaustive enumeration of documents x settings x entry points on the real library; relational oracle between runs",
    text="Corpus x all 8 switch sets, one-factor and all-pairs cosmetic settings, override sizes, five entry points: only the named element / style text / root size may change; entry points agree. Plus every ordered pair of 11 one-field settings variants on 4 drawings (history independence of the style sheet).",
    note=NOTE),
}
pending = {}
allp = ["C%02d" % i for i in range(1, 21)]
m = {
 "version": 1,
 "setup_cmd": "./setup.sh",
 "hooks": {
   "guard": "cargo feature `verif` of crate svgbob",
   "enable": "engine package svgmc7 depends on svgbob with features=[\"verif\"]; all other checks use the feature-off build",
   "baseline_off_cmd": BASE,
   "source_commits": ["ec5d604", "a244a97"],
   "add_only": True,
 },
 "engines": [
   {"name": "svgmc", "path": "engine/svgmc", "serves_properties": sorted(k for k in checks if k not in ("C07","C19","C20")), "kind_free_text": "bounded-exhaustive explorer of the real svgbob library (hooks off) in isolated worker processes, with reference models and metamorphic oracles"},
   {"name": "svgmc7", "path": "engine/svgmc7", "serves_properties": ["C07"], "kind_free_text": "the same engine built against svgbob with the `verif` feature: history / order / hash-seam enumeration and a stateless schedule explorer (iterative preemption bounding)"},
   {"name": "cli_explorer", "path": "drivers/cli_explorer.py", "serves_properties": ["C19"], "kind_free_text": "black-box bounded-exhaustive explorer of the svgbob_cli binary"},
   {"name": "server_explorer", "path": "drivers/server_explorer.py", "serves_properties": ["C20"], "kind_free_text": "black-box explorer of svgbob_server: request sequences and client-event interleavings on raw sockets"},
   {"name": "expat_xcheck", "path": "drivers/expat_xcheck.py", "serves_properties": ["C02","C08"], "kind_free_text": "binds the in-house XML parser to expat (exhaustive over the character domain) and lets expat judge every distinct output"},
 ],
 "checks": [],
 "notes": "All checks: exit 0 held / 1 violation (with a VIOLATION line and a replay file) / 2 machinery error (never a verdict). Known findings and fixed defects: known_findings.json. Seeded changes and which check catches which: seeded/RESULTS.md. Every quick check finishes in under a minute on 16 idle cores; thorough tiers have an internal budget (default 3600 s, VERIF_BUDGET_S) and report scopes they could not finish as exhaustive=false.",
 "not_applicable": [],
}
for pid in allp:
    if pid in checks:
        c = checks[pid]
        m["checks"].append({
          "property_id": pid,
          "quick_cmd": "./check %s quick" % pid,
          "thorough_cmd": "./check %s thorough" % pid,
          "evidence_file": "/verif/evidence/%s.json" % pid,
          "replay_cmd_template": "./check replay {path}",
          "engine": c.get("engine", "svgmc"),
          "level_claimed": {"category": "model_checking", "text": c["text"], "design_ref": "DESIGN.md §5 " + pid},
          "level_note": c["note"],
          "technique": c["tech"],
        })
    else:
        m["not_applicable"].append({"property_id": pid, "reason": pending.get(pid, "check not built yet in this round (planned as bounded-exhaustive model checking, see DESIGN.md §5); not claimed until its command exists")})
json.dump(m, open("/verif/MANIFEST.json", "w"), indent=1)
print("checks:", len(m["checks"]), "not_applicable:", len(m["not_applicable"]))
