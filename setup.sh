#!/bin/bash
# offline build of the verification engine from files on disk only
set -e
cd /verif/engine
export CARGO_NET_OFFLINE=true
cargo build --release --offline -p svgmc 2>&1 | tail -n 3
