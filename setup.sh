#!/bin/bash
# offline build of the verification engines and of the repository's binaries, from files on disk only
set -e
export CARGO_NET_OFFLINE=true
cd /verif/engine
cargo build --release --offline -p svgmc 2>&1 | tail -n 2
cargo build --release --offline -p svgmc7 2>&1 | tail -n 2
cd /repo
CARGO_PROFILE_RELEASE_LTO=false CARGO_PROFILE_RELEASE_CODEGEN_UNITS=16 cargo build --release --offline -p svgbob_cli -p svgbob_server --target-dir /verif/target/repo 2>&1 | tail -n 2
